From Coq Require Import List NArith Lia Bool Arith.
Import ListNotations.
Require Import P.Generated.Enums P.Spec.Values P.Generated.Tables P.Model.Base P.Model.Pool P.Proofs.PoolSpec P.Model.Walk P.Model.Builder P.Proofs.D0.

Definition dummy_atom : atom := {| akind := AK_Star; bonds := [] |}.
Definition upd {A} (f : nat -> A) (x : nat) (v : A) : nat -> A := fun y => if Nat.eqb y x then v else f y.
Lemma upd_same {A} (f : nat -> A) x v : upd f x v x = v.
Proof. unfold upd. rewrite Nat.eqb_refl. reflexivity. Qed.
Lemma upd_other {A} (f : nat -> A) x v y : y <> x -> upd f x v y = f y.
Proof. unfold upd. intros H. destruct (Nat.eqb_spec y x); [contradiction|reflexivity]. Qed.

Section D.
Variable g : list atom.
Notation n := (length g).
Definition atom_at x := nth x g dummy_atom.
Definition bonds_of x := bonds (atom_at x).

(* well-formed adjacency list, as propositions (the boolean wf of Spec/Graph.v reflects these) *)
Hypothesis wf_range : forall x b, x < n -> In b (bonds_of x) -> tid b < n /\ tid b <> x.
Hypothesis wf_nodup : forall x, x < n -> NoDup (map tid (bonds_of x)).
Hypothesis wf_sym : forall x b, x < n -> In b (bonds_of x) ->
  exists b', find_to x (bonds_of (tid b)) = Some b' /\ bk b' = reverse (bk b).
(* kinds on which invert_configuration does not hit unimplemented!() (non-TH configuration with a virtual hydrogen) *)
Hypothesis safe_kinds : forall x, safe (akind (atom_at x)).
(* the kind the walk hands to the follower for atom y entered from x *)
Definition walk_kind x y := wadj (index_of x (map tid (bonds_of y))) (akind (atom_at y)).

(* ---------- ghost state ---------- *)
Record ghost := { order : list nat; par : nat -> option nat; cnt : nat -> nat }.
Definition phi (gh : ghost) x := index_of x (order gh).
Definition nonback gh x := match par gh x with None => bonds_of x | Some p => remove_first_to p (bonds_of x) end.
Definition pending gh x := skipn (cnt gh x) (nonback gh x).
Definition processed gh x := firstn (cnt gh x) (nonback gh x).
Definition seg gh x := map (pair x) (pending gh x).

Lemma nonback_sub gh x b : In b (nonback gh x) -> In b (bonds_of x).
Proof. unfold nonback. destruct (par gh x); [apply remove_first_sub | auto]. Qed.
Lemma nonback_nodup gh x : x < n -> NoDup (map tid (nonback gh x)).
Proof. intros Hx. unfold nonback. destruct (par gh x); [apply remove_first_nodup|]; apply wf_nodup; exact Hx. Qed.

(* ---------- walk-side invariant on well-formed graphs ---------- *)
Record wsim (gh : ghost) (s : wstate) : Prop := {
  ws_len : length (rem s) = n;
  ws_rem : forall x, x < n -> nth x (rem s) None = if in_dec Nat.eq_dec x (order gh) then None else Some (atom_at x);
  ws_stk : stk s = flat_map (seg gh) (chain s);
  ws_done : forall x, In x (order gh) -> ~ In x (chain s) -> cnt gh x = length (nonback gh x);
  ws_cnt : forall x, cnt gh x <= length (nonback gh x);
  ws_chain : forall x, In x (chain s) -> In x (order gh);
  ws_nd : NoDup (order gh);
  ws_ndc : NoDup (chain s);
  ws_rng : forall x, In x (order gh) -> x < n;
  ws_par : forall x p, par gh x = Some p -> In x (order gh) /\ In p (order gh) /\ exists b, find_to p (bonds_of x) = Some b;
  ws_proc : forall x b, In x (order gh) -> In b (processed gh x) -> In (tid b) (order gh);
  ws_fresh : forall x, ~ In x (order gh) -> cnt gh x = 0 /\ par gh x = None;
  ws_child : forall y p, par gh y = Some p -> exists c, In c (processed gh p) /\ tid c = y
}.

Lemma flat_map_first gh : forall ch x b rest, flat_map (seg gh) ch = (x, b) :: rest ->
  exists pre post l', ch = pre ++ x :: post /\ (forall z, In z pre -> pending gh z = []) /\
                      pending gh x = b :: l' /\ rest = map (pair x) l' ++ flat_map (seg gh) post.
Proof.
  induction ch as [|z ch IH]; intros x b rest H; [discriminate|]. cbn [flat_map] in H. unfold seg at 1 in H.
  destruct (pending gh z) as [|b0 l] eqn:Ep.
  - cbn [map app] in H. destruct (IH x b rest H) as [pre [post [l' [E1 [E2 [E3 E4]]]]]].
    exists (z :: pre), post, l'. repeat split; auto.
    + rewrite E1. reflexivity.
    + intros w [<-|Hw]; [exact Ep | apply E2; exact Hw].
  - cbn [map app] in H. inversion H; subst. exists [], ch, l. repeat split; auto. intros w [].
Qed.

Lemma unwind_pre : forall pre x post k, ~ In x pre -> unwind (pre ++ x :: post) x k = Some (x :: post, k + length pre).
Proof.
  induction pre as [|z pre IH]; intros x post k Hn; cbn [app unwind].
  - rewrite Nat.eqb_refl. f_equal. f_equal. simpl. lia.
  - destruct (Nat.eqb_spec z x) as [->|Hne]; [exfalso; apply Hn; left; reflexivity|].
    rewrite IH by (intros H; apply Hn; right; exact H). f_equal. f_equal. simpl. lia.
Qed.

(* what one step of the walk does on a well-formed graph *)
Definition top_facts (gh : ghost) (s : wstate) x b rest pre post :=
  stk s = (x, b) :: rest /\ chain s = pre ++ x :: post /\ (forall z, In z pre -> pending gh z = []) /\
  pending gh x = b :: skipn (S (cnt gh x)) (nonback gh x) /\
  rest = map (pair x) (skipn (S (cnt gh x)) (nonback gh x)) ++ flat_map (seg gh) post /\
  ~ In x pre /\ In b (bonds_of x) /\ x < n /\ tid b < n /\ tid b <> x /\ In x (order gh).
Definition popped (s : wstate) (pre : list nat) := if Nat.eqb (length pre) 0 then evs s else EPop (length pre) :: evs s.

Inductive wstep_out (gh : ghost) (s : wstate) : stepres -> Prop :=
| WO_done : stk s = [] -> wstep_out gh s (Done s)
| WO_extend x b rest pre post b' :
    top_facts gh s x b rest pre post -> ~ In (tid b) (order gh) ->
    find_to x (bonds_of (tid b)) = Some b' -> bk b' = reverse (bk b) ->
    wstep_out gh s (Cont {| rem := set_nth (rem s) (tid b) None;
                            stk := map (pair (tid b)) (remove_first_to x (bonds_of (tid b))) ++ rest;
                            chain := tid b :: x :: post; wpool := wpool s;
                            evs := EExtend (bk b) (walk_kind x (tid b)) :: popped s pre |})
| WO_join x b rest pre post r p' :
    top_facts gh s x b rest pre post -> In (tid b) (order gh) -> hit (wpool s) x (tid b) = POk r p' ->
    wstep_out gh s (Cont {| rem := rem s; stk := rest; chain := x :: post; wpool := p';
                            evs := EJoin (bk b) r :: popped s pre |})
| WO_pool x b rest pre post s' k : top_facts gh s x b rest pre post -> In (tid b) (order gh) ->
    (hit (wpool s) x (tid b) = PPanicRnum \/ hit (wpool s) x (tid b) = PPanicCounter) -> (k = 3 \/ k = 4) ->
    wstep_out gh s (Stop (WPanic k) s').

Lemma skipn_sub {A} (l : list A) i x : In x (skipn i l) -> In x l.
Proof. revert i; induction l as [|a l IH]; intros i H; destruct i; simpl in *; auto. right. eapply IH. exact H. Qed.
Lemma skipn_cons_S {A} (l : list A) i b l' : skipn i l = b :: l' -> l' = skipn (S i) l.
Proof.
  revert i; induction l as [|a l IH]; intros i H; [destruct i; discriminate|].
  destruct i; simpl in *; [inversion H; reflexivity | apply IH; exact H].
Qed.

Lemma wstep_spec gh s : wsim gh s -> wstep_out gh s (step n s).
Proof.
  intros W. unfold step. destruct (stk s) as [|[x b] rest] eqn:Es; [apply WO_done; exact Es|].
  pose proof (ws_stk gh s W) as Hstk. rewrite Es in Hstk. symmetry in Hstk.
  destruct (flat_map_first gh (chain s) x b rest Hstk) as [pre [post [l' [Ech [Epre [Epend Erest]]]]]].
  assert (Hxc : In x (chain s)) by (rewrite Ech; apply in_or_app; right; left; reflexivity).
  assert (Hxo : In x (order gh)) by (apply (ws_chain gh s W); exact Hxc).
  assert (Hxn : x < n) by (apply (ws_rng gh s W); exact Hxo).
  assert (Hb : In b (bonds_of x)).
  { apply (nonback_sub gh). unfold pending in Epend. eapply (skipn_sub _ (cnt gh x)). rewrite Epend. left. reflexivity. }
  destruct (wf_range x b Hxn Hb) as [Hy Hyx].
  destruct (Nat.leb_spec n (tid b)) as [Hle|_]; [lia|].
  destruct (Nat.eqb_spec (tid b) x) as [E|_]; [contradiction|].
  assert (Hnp : ~ In x pre).
  { pose proof (ws_ndc gh s W) as Hnd. rewrite Ech in Hnd. apply NoDup_remove_2 in Hnd. intros H. apply Hnd. apply in_or_app. left. exact H. }
  rewrite Ech, (unwind_pre pre x post 0 Hnp). cbn [Nat.add].
  pose proof (skipn_cons_S _ _ _ _ Epend) as El'. subst l'.
  assert (Htop : top_facts gh s x b rest pre post) by (unfold top_facts; repeat split; assumption).
  rewrite (ws_rem gh s W (tid b) Hy).
  destruct (in_dec Nat.eq_dec (tid b) (order gh)) as [Hin|Hnin].
  - destruct (hit (wpool s) x (tid b)) as [r p'| |] eqn:Eh.
    + eapply WO_join; eauto.
    + eapply WO_pool; eauto.
    + eapply WO_pool; eauto.
  - destruct (wf_sym x b Hxn Hb) as [b' [Hf Hk]].
    pose proof (scan_wf (bonds_of (tid b)) x (akind (atom_at (tid b))) b' (safe_kinds (tid b)) (wf_nodup (tid b) Hy) Hf) as Hscan.
    unfold bonds_of in Hscan at 1. rewrite Hscan.
    assert (Hcompat : negb (compatible b b') = false).
    { unfold compatible. rewrite Hk. destruct (bk b); reflexivity. }
    rewrite Hcompat. eapply WO_extend; eauto.
Qed.

(* ---------- ghost updates and preservation of the walk-side invariant ---------- *)
Definition gh_extend (gh : ghost) x y : ghost :=
  {| order := order gh ++ [y]; par := upd (par gh) y (Some x); cnt := upd (cnt gh) x (S (cnt gh x)) |}.
Definition gh_join (gh : ghost) x : ghost :=
  {| order := order gh; par := par gh; cnt := upd (cnt gh) x (S (cnt gh x)) |}.

Lemma skipn_S_firstn {A} (l : list A) i b : skipn i l = b :: skipn (S i) l -> firstn (S i) l = firstn i l ++ [b].
Proof.
  revert i; induction l as [|a l IH]; intros i H; [destruct i; discriminate|].
  destruct i; simpl in *; [inversion H; reflexivity | rewrite (IH i H); reflexivity].
Qed.
Lemma skipn_nonempty_len {A} (l : list A) i b r : skipn i l = b :: r -> i < length l.
Proof.
  revert i; induction l as [|a l IH]; intros i H; [destruct i; discriminate|].
  destruct i; simpl in *; [lia | specialize (IH i H); lia].
Qed.
Lemma skipn_nil_len {A} (l : list A) i : skipn i l = [] -> length l <= i.
Proof.
  revert i; induction l as [|a l IH]; intros i H; [simpl; lia|].
  destruct i; simpl in *; [discriminate | specialize (IH i H); lia].
Qed.

Lemma NoDup_app_r {A} (l1 l2 : list A) : NoDup (l1 ++ l2) -> NoDup l2.
Proof. induction l1 as [|a l1 IH]; simpl; intros H; [exact H|]. inversion H; subst. apply IH. assumption. Qed.
Lemma NoDup_app_intro {A} (l1 l2 : list A) : NoDup l1 -> NoDup l2 -> (forall x, In x l1 -> ~ In x l2) -> NoDup (l1 ++ l2).
Proof.
  induction l1 as [|a l1 IH]; intros H1 H2 H; simpl; [exact H2|]. inversion H1; subst. constructor.
  - intros Hin. apply in_app_or in Hin as [Hin|Hin]; [contradiction | exact (H a (or_introl eq_refl) Hin)].
  - apply IH; auto. intros x Hx. apply H. right. exact Hx.
Qed.
Lemma flat_map_ext_in {A B} (f f' : A -> list B) l : (forall x, In x l -> f x = f' x) -> flat_map f l = flat_map f' l.
Proof. induction l as [|a l IH]; intros H; simpl; [reflexivity|]. rewrite H by (left; reflexivity). rewrite IH; [reflexivity|]. intros x Hx. apply H. right. exact Hx. Qed.

Lemma wsim_join gh s x b rest pre post r p' :
  wsim gh s -> top_facts gh s x b rest pre post -> In (tid b) (order gh) ->
  wsim (gh_join gh x) {| rem := rem s; stk := rest; chain := x :: post; wpool := p'; evs := EJoin (bk b) r :: popped s pre |}.
Proof.
  intros W [Es [Ech [Epre [Epend [Erest [Hnp [Hb [Hxn [Hy [Hyx Hxo]]]]]]]]]] Hin.
  assert (Hnb : forall z, nonback (gh_join gh x) z = nonback gh z) by reflexivity.
  assert (Hpo : forall z, z <> x -> pending (gh_join gh x) z = pending gh z).
  { intros z Hz. unfold pending. rewrite Hnb. cbn [gh_join cnt]. rewrite upd_other by exact Hz. reflexivity. }
  assert (Hpx : pending (gh_join gh x) x = skipn (S (cnt gh x)) (nonback gh x)).
  { unfold pending. rewrite Hnb. cbn [gh_join cnt]. rewrite upd_same. reflexivity. }
  pose proof (ws_ndc gh s W) as Hndc. rewrite Ech in Hndc.
  assert (Hxpost : ~ In x post) by (apply NoDup_remove_2 in Hndc; intros H; apply Hndc; apply in_or_app; right; exact H).
  constructor; cbn [rem stk chain gh_join order par cnt].
  - apply (ws_len gh s W).
  - apply (ws_rem gh s W).
  - rewrite Erest. cbn [flat_map]. unfold seg at 2. rewrite Hpx. f_equal.
    apply flat_map_ext_in. intros z Hz. unfold seg. rewrite Hpo; [reflexivity|]. intros ->. exact (Hxpost Hz).
  - intros z Hzo Hzc. destruct (Nat.eq_dec z x) as [->|Hzx]; [exfalso; apply Hzc; left; reflexivity|].
    rewrite upd_other by exact Hzx. change (nonback (gh_join gh x) z) with (nonback gh z).
    destruct (in_dec Nat.eq_dec z pre) as [Hzp|Hzp].
    + pose proof (Epre z Hzp) as Hp. unfold pending in Hp. apply skipn_nil_len in Hp. pose proof (ws_cnt gh s W z). lia.
    + apply (ws_done gh s W z Hzo). rewrite Ech. intros H. apply in_app_or in H as [H|[H|H]]; [exact (Hzp H) | congruence | apply Hzc; right; exact H].
  - intros z. change (nonback (gh_join gh x) z) with (nonback gh z). destruct (Nat.eq_dec z x) as [->|Hzx].
    + rewrite upd_same. unfold pending in Epend. apply skipn_nonempty_len in Epend. lia.
    + rewrite upd_other by exact Hzx. apply (ws_cnt gh s W).
  - intros z Hz. apply (ws_chain gh s W). rewrite Ech. apply in_or_app. right. exact Hz.
  - apply (ws_nd gh s W).
  - apply NoDup_app_r in Hndc. exact Hndc.
  - apply (ws_rng gh s W).
  - apply (ws_par gh s W).
  - intros z c Hzo Hc. unfold processed in Hc. change (nonback (gh_join gh x) z) with (nonback gh z) in Hc. cbn [gh_join cnt] in Hc.
    destruct (Nat.eq_dec z x) as [->|Hzx].
    + rewrite upd_same in Hc. unfold pending in Epend. rewrite (skipn_S_firstn _ _ _ Epend) in Hc.
      apply in_app_or in Hc as [Hc|[<-|[]]]; [apply (ws_proc gh s W x c Hxo Hc) | exact Hin].
    + rewrite upd_other in Hc by exact Hzx. apply (ws_proc gh s W z c Hzo Hc).
  - intros z Hz. rewrite upd_other by (intros ->; exact (Hz Hxo)). apply (ws_fresh gh s W z Hz).
  - intros z p Hp. destruct (ws_child gh s W z p Hp) as [c [Hc Ht]]. exists c. split; [|exact Ht].
    unfold processed in *. change (nonback (gh_join gh x) p) with (nonback gh p). cbn [gh_join cnt].
    destruct (Nat.eq_dec p x) as [->|Hpnx]; [|rewrite upd_other by exact Hpnx; exact Hc].
    rewrite upd_same. unfold pending in Epend. rewrite (skipn_S_firstn _ _ _ Epend). apply in_or_app. left. exact Hc.
Qed.

Lemma wsim_extend gh s x b rest pre post b' :
  wsim gh s -> top_facts gh s x b rest pre post -> ~ In (tid b) (order gh) -> find_to x (bonds_of (tid b)) = Some b' ->
  wsim (gh_extend gh x (tid b))
       {| rem := set_nth (rem s) (tid b) None;
          stk := map (pair (tid b)) (remove_first_to x (bonds_of (tid b))) ++ rest;
          chain := tid b :: x :: post; wpool := wpool s;
          evs := EExtend (bk b) (walk_kind x (tid b)) :: popped s pre |}.
Proof.
  intros W [Es [Ech [Epre [Epend [Erest [Hnp [Hb [Hxn [Hy [Hyx Hxo]]]]]]]]]] Hnin Hf.
  set (y := tid b) in *. set (gh' := gh_extend gh x y).
  destruct (ws_fresh gh s W y Hnin) as [Hcy Hpy].
  assert (Hparz : forall z, z <> y -> par gh' z = par gh z) by (intros z Hz; cbn [gh' gh_extend par]; rewrite upd_other by exact Hz; reflexivity).
  assert (Hnb : forall z, z <> y -> nonback gh' z = nonback gh z) by (intros z Hz; unfold nonback; rewrite Hparz by exact Hz; reflexivity).
  assert (Hnby : nonback gh' y = remove_first_to x (bonds_of y)) by (unfold nonback; cbn [gh' gh_extend par]; rewrite upd_same; reflexivity).
  assert (Hcz : forall z, z <> x -> cnt gh' z = cnt gh z) by (intros z Hz; cbn [gh' gh_extend cnt]; rewrite upd_other by exact Hz; reflexivity).
  assert (Hcx : cnt gh' x = S (cnt gh x)) by (cbn [gh' gh_extend cnt]; rewrite upd_same; reflexivity).
  assert (Hxy : x <> y) by (intros E; apply Hnin; rewrite <- E; exact Hxo).
  assert (Hpo : forall z, z <> x -> z <> y -> pending gh' z = pending gh z).
  { intros z Hz1 Hz2. unfold pending. rewrite Hnb, Hcz by assumption. reflexivity. }
  assert (Hpx : pending gh' x = skipn (S (cnt gh x)) (nonback gh x)) by (unfold pending; rewrite Hnb, Hcx by exact Hxy; reflexivity).
  assert (Hpy' : pending gh' y = remove_first_to x (bonds_of y)).
  { unfold pending. rewrite Hnby, Hcz by (intros E; apply Hxy; symmetry; exact E). rewrite Hcy. reflexivity. }
  pose proof (ws_ndc gh s W) as Hndc. rewrite Ech in Hndc.
  assert (Hxpost : ~ In x post) by (apply NoDup_remove_2 in Hndc; intros H; apply Hndc; apply in_or_app; right; exact H).
  assert (Hypost : ~ In y (x :: post)).
  { intros H. apply Hnin. apply (ws_chain gh s W). rewrite Ech. apply in_or_app. right. exact H. }
  assert (Hord : forall z, In z (order gh' ) <-> In z (order gh) \/ z = y).
  { intros z. cbn [gh' gh_extend order]. rewrite in_app_iff. simpl. intuition. }
  constructor; cbn [rem stk chain].
  - rewrite set_nth_length. apply (ws_len gh s W).
  - intros z Hz. destruct (Nat.eq_dec z y) as [->|Hzy].
    + rewrite nth_set_nth_same by (rewrite (ws_len gh s W); exact Hy).
      destruct (in_dec Nat.eq_dec y (order gh')) as [_|Hn]; [reflexivity|]. exfalso. apply Hn. apply Hord. right. reflexivity.
    + rewrite nth_set_nth_other by (intros E; apply Hzy; symmetry; exact E). rewrite (ws_rem gh s W z Hz).
      destruct (in_dec Nat.eq_dec z (order gh)) as [Hi|Hi], (in_dec Nat.eq_dec z (order gh')) as [Hi'|Hi']; try reflexivity.
      * exfalso. apply Hi'. apply Hord. left. exact Hi.
      * exfalso. apply Hord in Hi' as [Hi'|Hi']; [exact (Hi Hi') | exact (Hzy Hi')].
  - cbn [flat_map]. unfold seg at 1 2. rewrite Hpy', Hpx, Erest. f_equal. f_equal.
    apply flat_map_ext_in. intros z Hz. unfold seg. rewrite Hpo; [reflexivity | intros ->; exact (Hxpost Hz) | intros ->; apply Hypost; right; exact Hz].
  - intros z Hzo Hzc.
    assert (Hzy : z <> y) by (intros ->; apply Hzc; left; reflexivity).
    assert (Hzx : z <> x) by (intros ->; apply Hzc; right; left; reflexivity).
    apply Hord in Hzo as [Hzo|Hzo]; [|contradiction].
    rewrite Hcz, Hnb by assumption.
    destruct (in_dec Nat.eq_dec z pre) as [Hzp|Hzp].
    + pose proof (Epre z Hzp) as Hp. unfold pending in Hp. apply skipn_nil_len in Hp. pose proof (ws_cnt gh s W z). lia.
    + apply (ws_done gh s W z Hzo). rewrite Ech. intros H. apply in_app_or in H as [H|[H|H]]; [exact (Hzp H) | congruence | apply Hzc; right; right; exact H].
  - intros z. destruct (Nat.eq_dec z x) as [->|Hzx].
    + rewrite Hcx, Hnb by exact Hxy. unfold pending in Epend. apply skipn_nonempty_len in Epend. lia.
    + rewrite Hcz by exact Hzx. destruct (Nat.eq_dec z y) as [->|Hzy]; [rewrite Hcy; lia|]. rewrite Hnb by exact Hzy. apply (ws_cnt gh s W).
  - intros z [<-|Hz]; [apply Hord; right; reflexivity|]. apply Hord. left. apply (ws_chain gh s W). rewrite Ech. apply in_or_app. right. exact Hz.
  - cbn [gh' gh_extend order]. apply NoDup_app_intro; [apply (ws_nd gh s W) | constructor; [intros []|constructor] | ].
    intros z Hz [<-|[]]. exact (Hnin Hz).
  - constructor; [exact Hypost | apply NoDup_app_r in Hndc; exact Hndc].
  - intros z Hz. apply Hord in Hz as [Hz| ->]; [apply (ws_rng gh s W z Hz) | exact Hy].
  - intros z p Hp. destruct (Nat.eq_dec z y) as [->|Hzy].
    + cbn [gh' gh_extend par] in Hp. rewrite upd_same in Hp. inversion Hp; subst p.
      split; [apply Hord; right; reflexivity|]. split; [apply Hord; left; exact Hxo|]. exists b'. exact Hf.
    + rewrite Hparz in Hp by exact Hzy. destruct (ws_par gh s W z p Hp) as [H1 [H2 H3]].
      split; [apply Hord; left; exact H1|]. split; [apply Hord; left; exact H2 | exact H3].
  - intros z c Hzo Hc. unfold processed in Hc. destruct (Nat.eq_dec z x) as [->|Hzx].
    + rewrite Hcx, Hnb in Hc by exact Hxy. unfold pending in Epend. rewrite (skipn_S_firstn _ _ _ Epend) in Hc.
      apply in_app_or in Hc as [Hc|[<-|[]]]; [apply Hord; left; apply (ws_proc gh s W x c Hxo Hc) | apply Hord; right; reflexivity].
    + rewrite Hcz in Hc by exact Hzx. destruct (Nat.eq_dec z y) as [->|Hzy].
      * rewrite Hcy in Hc. simpl in Hc. contradiction.
      * rewrite Hnb in Hc by exact Hzy. apply Hord in Hzo as [Hzo|Hzo]; [|contradiction]. apply Hord. left. apply (ws_proc gh s W z c Hzo Hc).
  - intros z Hz. assert (Hzo : ~ In z (order gh)) by (intros H; apply Hz; apply Hord; left; exact H).
    assert (Hzy : z <> y) by (intros ->; apply Hz; apply Hord; right; reflexivity).
    assert (Hzx : z <> x) by (intros ->; exact (Hzo Hxo)).
    rewrite Hcz, Hparz by assumption. apply (ws_fresh gh s W z Hzo).
  - intros z p Hp. destruct (Nat.eq_dec z y) as [->|Hzy].
    + cbn [gh' gh_extend par] in Hp. rewrite upd_same in Hp. inversion Hp; subst p. exists b. split; [|reflexivity].
      unfold processed. rewrite Hcx, Hnb by exact Hxy. unfold pending in Epend. rewrite (skipn_S_firstn _ _ _ Epend).
      apply in_or_app. right. left. reflexivity.
    + rewrite Hparz in Hp by exact Hzy. destruct (ws_child gh s W z p Hp) as [c [Hc Ht]]. exists c. split; [|exact Ht].
      assert (Hpny : p <> y) by (intros ->; destruct (ws_par gh s W z y Hp) as [_ [Hyord _]]; exact (Hnin Hyord)).
      unfold processed in *. rewrite Hnb by exact Hpny. destruct (Nat.eq_dec p x) as [->|Hpnx].
      * rewrite Hcx. unfold pending in Epend. rewrite (skipn_S_firstn _ _ _ Epend). apply in_or_app. left. exact Hc.
      * rewrite Hcz by exact Hpnx. exact Hc.
Qed.
End D.
