(* C07 / C09 / C04 token-level definitions: display tables against spellings, injectivity up to the shorthands, and
   "reads back in position" as finite checks on the learned tries (no proofs here). *)
From Coq Require Import List String Ascii ZArith NArith Lia Bool Arith.
Import ListNotations.
Require Import P.Generated.Enums P.Spec.Values P.Generated.Tables P.Meta.Scan P.Meta.ScanMeta P.Generated.Trees P.Spec.Spelling P.Spec.Normal
  P.Model.Base P.Model.Token P.Proofs.Finite.
Local Open Scope string_scope.

(* ---------- (a) display = standard spelling ---------- *)
Definition bad_display {A} (all : list A) (disp spell : A -> string) := filter (fun x => negb (String.eqb (disp x) (spell x))) all.
Definition bad_display_element := bad_display all_element display_element spelling_element.
Definition bad_display_aliphatic := bad_display all_aliphatic display_aliphatic spelling_aliphatic.
Definition bad_display_aromatic := bad_display all_aromatic display_aromatic spelling_aromatic.
Definition bad_display_bracket_aromatic := bad_display all_bracket_aromatic display_bracket_aromatic spelling_bracket_aromatic.
Definition bad_display_configuration := bad_display all_configuration display_configuration spelling_configuration.
Definition bad_display_charge := bad_display all_charge display_charge spelling_charge.
Definition bad_display_virtual_hydrogen := bad_display all_virtual_hydrogen display_virtual_hydrogen spelling_virtual_hydrogen.
Definition bad_display_rnum := bad_display all_rnum display_rnum spelling_rnum.
Definition bad_display_bond_kind := bad_display all_bond_kind display_bond_kind spelling_bond_kind.

(* ---------- (b) two different values never share a spelling, except the documented shorthands ---------- *)
Definition clashes {A} (all : list A) (disp : A -> string) (same : A -> A -> bool) : list (A * A) :=
  filter (fun p => String.eqb (disp (fst p)) (disp (snd p)) && negb (same (fst p) (snd p))) (list_prod all all).
Definition clash_element := clashes all_element display_element element_eqb.
Definition clash_symbol := clashes all_bracket_symbol display_symbol bs_eqb.
Definition clash_organic := clashes (map AK_Aliphatic all_aliphatic ++ map AK_Aromatic all_aromatic ++ [AK_Star])%list display_kind kind_eqb.
Definition clash_configuration := clashes (all_option all_configuration) (opt_str display_configuration)
  (fun a b => opt_eqb configuration_eqb (nk_cfg a) (nk_cfg b)).
Definition clash_hcount := clashes (all_option all_virtual_hydrogen) (opt_str display_virtual_hydrogen)
  (fun a b => opt_eqb virtual_hydrogen_eqb (nk_h a) (nk_h b)).
Definition clash_charge := clashes (all_option all_charge) (opt_str display_charge) (opt_eqb charge_eqb).
Definition clash_rnum := clashes all_rnum display_rnum rnum_eqb.
Definition clash_bond := clashes all_bond_kind display_bond_kind bond_kind_eqb.

(* ---------- (c) reads back in position ---------- *)
Section Field.
Variable V : Type.
Variable veqb : V -> V -> bool.
Variable t : tree V.
(* reading text p followed by c gives [expect] having consumed exactly |p| and looked at most one character further *)
Definition reads_as (p : list char) (c : option char) (expect : option V) : bool :=
  let s := match c with Some c => (p ++ [c])%list | None => p end in
  let r := run t s 0 0 in
  match expect, r_out r with
  | Some v, OVal v' => veqb v v' && Nat.eqb (r_pos r) (List.length p)
  | None, ONone => Nat.eqb (r_pos r) 0 && match p with [] => true | _ => false end
  | _, _ => false
  end && (r_peek r <=? List.length p + 1)%nat.
Definition field_bad (rows : list (list char * option V)) (after : list (option char)) : list (list char * option char) :=
  flat_map (fun row => map (fun c => (fst row, c)) (filter (fun c => negb (reads_as (fst row) c (snd row))) after)) rows.
End Field.
Arguments reads_as {V}. Arguments field_bad {V}.

Definition RBc : char := 93%N.
Definition firsts (texts : list (list char)) : list char := nodup N.eq_dec (flat_map (fun t => match t with c :: _ => [c] | [] => [] end) texts).
Definition numbers : list N := N_below 1000.
Definition opt_text {A} (f : A -> list char) (o : option A) : list char := match o with Some x => f x | None => [] end.
Definition text_iso (n : N) : list char := chars (dec n).
Definition text_sym (s : bracket_symbol) : list char := chars (display_symbol s).
Definition text_cfg (c : configuration) : list char := chars (display_configuration c).
Definition text_h (h : virtual_hydrogen) : list char := chars (display_virtual_hydrogen h).
Definition text_chg (c : charge) : list char := chars (display_charge c).
Definition text_map (n : N) : list char := (58%N :: chars (dec n))%list.
(* characters that can follow each field inside a bracket atom: first characters of the later fields, or "]" *)
Definition after_map : list char := [RBc].
Definition after_chg : list char := (firsts (map text_map numbers) ++ after_map)%list.
Definition after_h : list char := (firsts (map text_chg all_charge) ++ after_chg)%list.
Definition after_cfg : list char := (firsts (map text_h all_virtual_hydrogen) ++ after_h)%list.
Definition after_sym : list char := (firsts (map text_cfg all_configuration) ++ after_cfg)%list.
Definition after_iso : list char := firsts (map text_sym all_bracket_symbol).
Definition rows_opt {A} (all : list A) (text : A -> list char) (nk : option A -> option A) : list (list char * option A) :=
  ([], nk None) :: map (fun v => (text v, nk (Some v))) all.
Definition idn {A} (o : option A) := o.
Definition bad_field_isotope := field_bad N.eqb tree_isotope (rows_opt numbers text_iso idn) (map Some after_iso).
Definition bad_field_symbol := field_bad bs_eqb tree_symbol (map (fun s => (text_sym s, Some s)) all_bracket_symbol) (map Some after_sym).
Definition bad_field_configuration := field_bad configuration_eqb tree_configuration (rows_opt all_configuration text_cfg nk_cfg) (map Some after_cfg).
Definition bad_field_hcount := field_bad virtual_hydrogen_eqb tree_hcount (rows_opt all_virtual_hydrogen text_h nk_h) (map Some after_h).
Definition bad_field_charge := field_bad charge_eqb tree_charge (rows_opt all_charge text_chg idn) (map Some after_chg).
Definition bad_field_map := field_bad N.eqb tree_map (rows_opt numbers text_map idn) (map Some after_map).

(* body position: what may follow an atom, a bond symbol, a ring number in writer output / in the grammar:
   bond symbols, atom starts, digits, %, parentheses, dot, end of input *)
Definition bond_chars : list char := firsts (map (fun b => chars (display_bond_kind b)) all_bond_kind).
Definition organic_kinds : list atom_kind := (map AK_Aliphatic all_aliphatic ++ map AK_Aromatic all_aromatic)%list.
Definition atom_starts : list char := (firsts (map pp_kind organic_kinds) ++ [42; 91])%N%list.
Definition digit_chars : list char := map (fun k => (48 + k)%N) (N_below 10).
Definition follow_atom : list (option char) := (None :: map Some (bond_chars ++ atom_starts ++ digit_chars ++ [37; 40; 41; 46]%N))%list.
Definition org_of (k : atom_kind) : option organic := match k with AK_Aliphatic a => Some (Org_Aliphatic a) | AK_Aromatic a => Some (Org_Aromatic a) | _ => None end.
Definition bad_organic := field_bad org_eqb tree_organic (map (fun k => (pp_kind k, org_of k)) organic_kinds) follow_atom.
(* where no organic atom starts (a bracket, a star, a ring number, a parenthesis, a dot, the end) the organic reader says "none" without consuming *)
Definition not_organic_starts : list (option char) := (None :: map Some (digit_chars ++ [37; 40; 41; 46; 42; 91]%N ++ bond_chars))%list.
Definition bad_organic_none := field_bad org_eqb tree_organic [([], None)] not_organic_starts.
(* bonds: a bond symbol before an atom start or a ring number; elided elsewhere *)
Definition explicit_bonds : list bond_kind := filter (fun b => negb (String.eqb (display_bond_kind b) "")) all_bond_kind.
Definition follow_bond : list (option char) := map Some (atom_starts ++ digit_chars ++ [37%N])%list.
Definition bad_bond := field_bad bond_kind_eqb tree_bond (map (fun b => (pp_bond b, Some b)) explicit_bonds) follow_bond.
Definition elided_value : option bond_kind := find (fun b => String.eqb (display_bond_kind b) "") all_bond_kind.
Definition no_bond_starts : list (option char) := (None :: map Some (atom_starts ++ digit_chars ++ [37; 40; 41; 46]%N))%list.
Definition bad_bond_elided := field_bad bond_kind_eqb tree_bond [([], elided_value)] no_bond_starts.
(* ring numbers: digit or %dd, whatever follows among the body characters *)
Definition bad_rnum := field_bad rnum_eqb tree_rnum (map (fun r => (chars (display_rnum r), Some r)) all_rnum) follow_atom.
Definition not_rnum_starts : list (option char) := (None :: map Some (bond_chars ++ atom_starts ++ [40; 41; 46]%N))%list.
Definition bad_rnum_none := field_bad rnum_eqb tree_rnum [([], None)] not_rnum_starts.

(* ---------- structural facts about the tries used by the model: "none" never consumes; no panic leaf ---------- *)
Definition family {V} (t : tree V) := fam V alphabet omega [t] (depth t + 1) [].
Definition none_consumes {V} (t : tree V) := filter (fun r => match r_out (run t r 0 0) with ONone => negb (Nat.eqb (r_pos (run t r 0 0)) 0) | _ => false end) (family t).
Definition panics {V} (t : tree V) := filter (fun r => match r_out (run t r 0 0) with OPanic _ => true | _ => false end) (family t).
Definition pats_in_alphabet {V} (t : tree V) := forallb (fun p => match p with PLit c => existsb (N.eqb c) alphabet | PRange _ _ => false end) (pats t).
Definition omega_outside := negb (existsb (N.eqb omega) alphabet).
