(* C16 / C17 definitions: the finite checks over the dumped target and debracket tables (no proofs here). *)
From Coq Require Import List String ZArith NArith Lia Bool Arith.
Import ListNotations.
Require Import P.Generated.Enums P.Spec.Values P.Generated.Tables P.Spec.Spelling P.Spec.Valence P.Model.Base P.Model.Atom P.Proofs.Finite P.Checks.C18_defs.
Local Open Scope string_scope.

Definition lN_eqb := list_eqb N.eqb.
(* C17: target tables = standard valences *)
Definition bad_targets_aliphatic := filter (fun a => negb (lN_eqb (targets_aliphatic a) (std_valences (name_aliphatic a)))) all_aliphatic.
Definition bad_targets_aromatic := filter (fun a => negb (lN_eqb (targets_aromatic a) (std_valences (name_aromatic a)))) all_aromatic.
(* neutral bracket atoms: B C N O P S carry the standard valences, As and Se those of their group (P, S); a bracket
   aromatic symbol those of its element; the wildcard none. Other neutral elements are not constrained by the property. *)
Definition neutral_expected (nm : string) : option (list N) :=
  if existsb (String.eqb nm) ["B"; "C"; "N"; "O"; "P"; "S"] then Some (std_valences nm)
  else if String.eqb nm "As" then Some (std_valences "P") else if String.eqb nm "Se" then Some (std_valences "S") else None.
Definition bad_targets_neutral := filter (fun s => negb match symbol_element s with
    | Some e => match neutral_expected (name_element e) with Some t => lN_eqb (targets_bracket s None) t | None => true end
    | None => match s with BS_Star => lN_eqb (targets_bracket s None) [] | _ => false end end) all_bracket_symbol.
(* charged bracket atoms that have targets use those of the isoelectronic neutral element (atomic number - charge) *)
Definition charge_Z (c : option charge) : Z := match c with Some c => charge_value c | None => 0%Z end.
Definition iso_targets (s : bracket_symbol) (c : option charge) : option (list N) :=
  match symbol_element s with
  | Some e => match element_of_Z (Z.to_N (Z.of_N (atomic_number e) - charge_Z c)) with
              | Some e' => Some (targets_bracket (BS_Element e') None) | None => None end
  | None => None end.
Definition charged_ok (s : bracket_symbol) (c : option charge) : bool :=
  match targets_bracket s c with [] => true | t => match iso_targets s c with Some t' => lN_eqb t t' | None => false end end.
Definition bad_targets_charged :=
  filter (fun p => negb (charged_ok (fst p) (snd p))) (list_prod all_bracket_symbol (all_option all_charge)).
Definition targets_misc_ok := Nat.eqb targets_bracket_field_dependence 0 && targets_organic_agree &&
  (let '(a, b, c) := is_aromatic_organic in negb a && negb b && c).
Definition bad_is_aromatic := filter (fun s => negb (Bool.eqb (is_aromatic_symbol s) (match s with BS_Aromatic _ => true | _ => false end))) all_bracket_symbol.
Definition bad_u8_of_vh' := bad_u8_of_vh.

(* C17: the model's hydrogen count against the specification, as a function of the bond-order sum *)

(* C16: decode the dumped debracket table *)
Definition db_lookup (s : bracket_symbol) (h : option virtual_hydrogen) (b : N) : debracket_out :=
  match seg_lookup (debracket_table s h) b with Some o => o | None => DbOther end.
Definition plain_bracket (s : bracket_symbol) (h : option virtual_hydrogen) : kind := AK_Bracket None s None h None None.
Definition db_decode (s : bracket_symbol) (h : option virtual_hydrogen) (o : debracket_out) : option (option kind) :=   (* outer None: undecodable *)
  match o with
  | DbSelf => Some (Some (plain_bracket s h)) | DbStar => Some (Some AK_Star) | DbAliphatic a => Some (Some (AK_Aliphatic a))
  | DbAromatic a => Some (Some (AK_Aromatic a)) | DbPanic => Some None | DbOther => None end.
Definition sums : list N := N_below 256.
Definition sym_h : list (bracket_symbol * option virtual_hydrogen) := list_prod all_bracket_symbol (all_option all_virtual_hydrogen).
(* (1) the hand model of debracket is the dumped table on its whole domain *)
Definition bad_debracket_model :=
  filter (fun p => let '(s, h) := p in negb (tiles (debracket_table s h) 0 256 &&
     forallb (fun b => match db_decode s h (db_lookup s h b) with Some r => opt_eqb kind_eqb (debracket (plain_bracket s h) b) r | None => false end) sums)) sym_h.
(* (2) meaning preserved: element, aromatic flag and hydrogen count, whenever sum + hcount fits a byte (else the documented panic) *)
Definition debracket_ok (s : bracket_symbol) (h : option virtual_hydrogen) (b : N) : bool :=
  let k := plain_bracket s h in
  if (255 <? b + hcount_of h)%N then true
  else match debracket k b with
       | None => false
       | Some k' => String.eqb (kind_element_name k') (kind_element_name k) && Bool.eqb (kind_aromatic k') (kind_aromatic k)
                    && N.eqb (hydrogens_spec k' b) (hcount_of h)
       end.
Definition bad_debracket_meaning :=
  flat_map (fun p => let '(s, h) := p in map (fun b => (s, h, b)) (filter (fun b => negb (debracket_ok s h b)) sums)) sym_h.
Definition debracket_misc_ok := Nat.eqb debracket_other_field_changed 0 && Nat.eqb debracket_unbracketed_changed 0.
