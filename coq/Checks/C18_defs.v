(* C18 definitions: the code's conversions as functions of the dumped tables, their specifications, and the finite
   checks as lists of offending rows (no proofs here, so this file compiles whatever the tables say).
   C18: conversions are exact, total on their range and inverse.  Everything here is a finite computation over the
   tables dumped from the code (Generated/Tables.v), compared with integers and variant names (Spec/Spelling.v). *)
From Coq Require Import List String ZArith NArith Bool Arith Lia.
Import ListNotations.
Require Import P.Generated.Enums P.Spec.Values P.Generated.Tables P.Spec.Spelling P.Proofs.Finite.
Local Open Scope string_scope.

(* ---------- the code's conversions as functions (a dumped table is the function on its whole domain) ---------- *)
Definition assoc_Z {A} (t : list (Z * A)) (z : Z) : option A := option_map snd (find (fun p => Z.eqb (fst p) z) t).
Definition assoc_N {A} (t : list (N * A)) (n : N) : option A := option_map snd (find (fun p => N.eqb (fst p) n) t).
Definition charge_of_i8 (z : Z) : option charge := match assoc_Z charge_of_i8_table z with Some r => r | None => None end.
Definition vh_of_u8 (n : N) : option virtual_hydrogen := match assoc_N vh_of_u8_table n with Some r => r | None => None end.
Definition rnum_of_u16 (n : N) : option rnum := match seg_lookup rnum_of_u16_segments n with Some r => r | None => None end.
Definition number_of_u16 (n : N) : num_out := match seg_lookup number_of_u16_segments n with Some r => r | None => NumErr end.
(* String -> Number on the digit string of length [len] whose numeric value is [v] *)
Definition number_of_digits (len : nat) (v : N) : num_out :=
  match find (fun p => Nat.eqb (fst p) len) number_of_digits_segments with
  | Some (_, segs) => match seg_lookup segs v with Some r => r | None => NumErr end
  | None => NumErr end.

(* ---------- specifications: integers and names only ---------- *)
Definition charge_spec (z : Z) : option charge := find (fun c => Z.eqb (charge_value c) z) all_charge.
Definition in_charge_range (z : Z) : bool := ((-15 <=? z) && (z <=? 15) && negb (z =? 0))%Z.
Definition vh_spec (v : N) : option virtual_hydrogen := find (fun h => N.eqb (vh_value h) v) all_virtual_hydrogen.
Definition rnum_spec (v : N) : option rnum := if (v <? 100)%N then find (fun r => N.eqb (rnum_value r) v) all_rnum else None.
Definition number_spec (v : N) : num_out := if (v <? 1000)%N then NumOkSame else NumErr.
Definition num_out_eqb (a b : num_out) := match a, b with NumOkSame, NumOkSame | NumOkOther, NumOkOther | NumErr, NumErr => true | _, _ => false end.
Lemma num_out_eqb_eq a b : num_out_eqb a b = true -> a = b. Proof. destruct a, b; simpl; congruence. Qed.
Definition is_some {A} (o : option A) := match o with Some _ => true | None => false end.

(* ---------- finite checks (each returns the offending rows; the Probes file prints them) ---------- *)
Definition i8_range : list Z := Z_interval (-128) 256.
Definition bad_charge_of_i8 := filter (fun z => negb (opt_eqb charge_eqb (charge_of_i8 z) (charge_spec z) && Bool.eqb (is_some (charge_of_i8 z)) (in_charge_range z))) i8_range.
Definition bad_i8_of_charge := filter (fun c => negb (Z.eqb (i8_of_charge c) (charge_value c) && opt_eqb charge_eqb (charge_of_i8 (i8_of_charge c)) (Some c))) all_charge.
Definition u8_range : list N := N_below 256.
Definition bad_vh_of_u8 := filter (fun n => negb (opt_eqb virtual_hydrogen_eqb (vh_of_u8 n) (vh_spec n) && Bool.eqb (is_some (vh_of_u8 n)) (n <? 10)%N)) u8_range.
Definition bad_u8_of_vh := filter (fun h => negb (N.eqb (u8_of_vh h) (vh_value h) && opt_eqb virtual_hydrogen_eqb (vh_of_u8 (u8_of_vh h)) (Some h))) all_virtual_hydrogen.
(* u16 functions are dumped run-length encoded; a segment is right if every number in it is: segments below 100 are
   single numbers, so the check is per segment *)
Definition rnum_seg_ok (s : N * N * option rnum) := let '(lo, hi, o) := s in
  if (hi <? 100)%N then N.eqb lo hi && opt_eqb rnum_eqb o (rnum_spec lo) else (100 <=? lo)%N && opt_eqb rnum_eqb o None.
Definition bad_rnum_of_u16 := filter (fun s => negb (rnum_seg_ok s)) rnum_of_u16_segments.
Definition rnum_tiles_ok := tiles rnum_of_u16_segments 0 65536.
Definition bad_rnum_value := filter (fun r => negb (opt_eqb rnum_eqb (rnum_of_u16 (rnum_value r)) (Some r) && (rnum_value r <? 100)%N)) all_rnum.
Definition number_seg_ok (s : N * N * num_out) := let '(lo, hi, o) := s in
  if (hi <? 1000)%N then num_out_eqb o NumOkSame else (1000 <=? lo)%N && num_out_eqb o NumErr.
Definition bad_number_of_u16 := filter (fun s => negb (number_seg_ok s)) number_of_u16_segments.
Definition number_tiles_ok := tiles number_of_u16_segments 0 65536.
Definition bad_number_of_digits :=
  filter (fun p => negb (tiles (snd p) 0 (10 ^ N.of_nat (fst p)) && forallb number_seg_ok (snd p))) number_of_digits_segments.
Definition digit_lengths_ok := list_eq_dec Nat.eq_dec (map fst number_of_digits_segments) [1; 2; 3; 4; 5]%nat.
(* String -> Number on arbitrary strings: an optional '+', then one or more ASCII digits, the value below 1000 (the
   grammar of u16::from_str followed by the range check); the value is computed without any bound *)
Definition is_digit_cp (c : N) : bool := (48 <=? c)%N && (c <=? 57)%N.
Definition digits_value (s : list N) : N := fold_left (fun acc c => acc * 10 + (c - 48))%N s 0%N.
Definition number_string_spec (s : list N) : option N :=
  let body := match s with 43%N :: t => t | _ => s end in
  match body with
  | [] => None
  | _ => if forallb is_digit_cp body then (let v := digits_value body in if (v <? 1000)%N then Some v else None) else None
  end.
Definition bad_number_of_string :=
  filter (fun p => negb match snd p with Some r => opt_eqb N.eqb r (number_string_spec (fst p)) | None => false end) number_of_string_probes.
Definition up_down (k : bond_kind) : bond_kind := match name_bond_kind k with "Up" => BK_Down | "Down" => BK_Up | _ => k end.
Definition order_spec (k : bond_kind) : N := match name_bond_kind k with "Double" => 2 | "Triple" => 3 | "Quadruple" => 4 | _ => 1 end.
Definition bad_reverse := filter (fun k => negb (bond_kind_eqb (reverse_bond_kind (reverse_bond_kind k)) k && bond_kind_eqb (reverse_bond_kind k) (up_down k))) all_bond_kind.
Definition bad_order := filter (fun k => negb (N.eqb (order_bond_kind k) (order_spec k))) all_bond_kind.
Definition bad_directional := filter (fun k => negb (Bool.eqb (directional_bond_kind k) (negb (bond_kind_eqb (up_down k) k)))) all_bond_kind.
Definition bad_aliphatic_of_element := filter (fun e => negb match aliphatic_of_element e with Some a => String.eqb (name_aliphatic a) (name_element e)
    | None => negb (existsb (fun a => String.eqb (name_aliphatic a) (name_element e)) all_aliphatic) end) all_element.
Definition bad_aliphatic_of_aromatic := filter (fun a => negb (String.eqb (name_aliphatic (aliphatic_of_aromatic a)) (name_aromatic a))) all_aromatic.
Definition bad_bracket_aromatic := filter (fun b => negb (String.eqb (name_element (element_of_bracket_aromatic b)) (name_bracket_aromatic b) &&
    match aromatic_of_bracket_aromatic b with Some a => String.eqb (name_aromatic a) (name_bracket_aromatic b)
    | None => negb (existsb (fun a => String.eqb (name_aromatic a) (name_bracket_aromatic b)) all_aromatic) end)) all_bracket_aromatic.
(* the number shown in the text form is the integer *)
Definition bad_charge_text := filter (fun c => negb (String.eqb (display_charge c) (spelling_charge c))) all_charge.
Definition bad_vh_text := filter (fun h => negb (String.eqb (display_virtual_hydrogen h) (spelling_virtual_hydrogen h))) all_virtual_hydrogen.
Definition bad_rnum_text := filter (fun r => negb (String.eqb (display_rnum r) (spelling_rnum r))) all_rnum.
Definition bad_number_text := filter (fun p => negb (String.eqb (snd p) (dec (fst p)))) display_number_samples.

