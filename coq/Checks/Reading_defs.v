(* C04 / C05 token level, definitions: each learned trie against the specification trie of its token family
   (Spec/Reading.v: built from the documented spellings, variant names and integers) on the covering family of the
   pair. No proofs here. *)
From Coq Require Import List String Ascii ZArith NArith Bool Arith.
Import ListNotations.
Require Import P.Generated.Enums P.Meta.Scan P.Meta.ScanMeta P.Spec.Values P.Spec.Spelling P.Spec.Reading P.Generated.Trees.
Local Open Scope string_scope.

Section Cmp.
Variable V : Type.
Variable veqb : V -> V -> bool.
Definition out_eqb (a b : outcome V) : bool :=
  match a, b with OVal x, OVal y => veqb x y | ONone, ONone => true | OErrEol, OErrEol => true
  | OErrChar i, OErrChar j => Nat.eqb i j | _, _ => false end.
(* after an error only the reported index is observable, not the cursor *)
Definition is_err (o : outcome V) := match o with OErrEol | OErrChar _ => true | _ => false end.
Definition same (r1 r2 : res V) := out_eqb (r_out r1) (r_out r2) && (is_err (r_out r1) || Nat.eqb (r_pos r1) (r_pos r2)).
Definition pair_family (code spec : tree V) := fam V alphabet omega [code; spec] (maxdepth V [code; spec] + 1) [].
Definition disagreements (code spec : tree V) := filter (fun r => negb (same (run code r 0 0) (run spec r 0 0))) (pair_family code spec).
End Cmp.
Arguments same {V}. Arguments disagreements {V}. Arguments pair_family {V}.

Definition elided_out : option (outcome bond_kind) := match bk_elided with Some k => Some (OVal k) | None => None end.
Definition spec_symbol := trie_of None symbol_table.
Definition spec_organic := trie_of (Some ONone) organic_table.
Definition spec_configuration := trie_of (Some ONone) configuration_table.
Definition spec_charge := trie_of (Some ONone) charge_table.
Definition spec_bond := trie_of elided_out bond_table.
Definition spec_rnum := trie_of (Some ONone) rnum_table.
Definition spec_hcount := trie_of (Some ONone) hcount_table.
Definition spec_isotope := trie_of (Some ONone) isotope_table.
Definition spec_map := trie_of (Some ONone) map_table.
Definition bad_symbol := disagreements bs_eqb tree_symbol spec_symbol.
Definition bad_organic_tok := disagreements org_eqb tree_organic spec_organic.
Definition bad_configuration := disagreements configuration_eqb tree_configuration spec_configuration.
Definition bad_charge := disagreements charge_eqb tree_charge spec_charge.
Definition bad_bond_tok := disagreements bond_kind_eqb tree_bond spec_bond.
Definition bad_rnum_tok := disagreements rnum_eqb tree_rnum spec_rnum.
Definition bad_hcount := disagreements virtual_hydrogen_eqb tree_hcount spec_hcount.
Definition bad_isotope := disagreements N.eqb tree_isotope spec_isotope.
Definition bad_map := disagreements N.eqb tree_map spec_map.
Definition show (l : list char) : string := string_of_list_ascii (map ascii_of_N l).
Definition describe {V} (code spec : tree V) (l : list (list char)) :=
  map (fun r => (show r, match r_out (run code r 0 0) with OVal _ => "value" | ONone => "none" | OErrEol => "end-of-line" | OErrChar _ => "character" | OPanic _ => "panic" end,
                 match r_out (run code r 0 0) with OErrChar i => i | _ => r_pos (run code r 0 0) end,
                 match r_out (run spec r 0 0) with OVal _ => "value" | ONone => "none" | OErrEol => "end-of-line" | OErrChar _ => "character" | OPanic _ => "panic" end,
                 match r_out (run spec r 0 0) with OErrChar i => i | _ => r_pos (run spec r 0 0) end)) (firstn 6 l).
