(* Token readers against the documented token families: every member of the covering family on which they differ. *)
From Coq Require Import List String NArith Bool.
Import ListNotations.
Require Import P.Generated.Enums P.Meta.Scan P.Spec.Values P.Spec.Reading P.Generated.Trees P.Checks.Reading_defs.
Local Open Scope string_scope.
Eval vm_compute in ("RESULT", "C04.token_symbol", describe tree_symbol spec_symbol bad_symbol).
Eval vm_compute in ("RESULT", "C04.token_organic", describe tree_organic spec_organic bad_organic_tok).
Eval vm_compute in ("RESULT", "C04.token_configuration", describe tree_configuration spec_configuration bad_configuration).
Eval vm_compute in ("RESULT", "C04.token_charge", describe tree_charge spec_charge bad_charge).
Eval vm_compute in ("RESULT", "C04.token_bond", describe tree_bond spec_bond bad_bond_tok).
Eval vm_compute in ("RESULT", "C04.token_rnum", describe tree_rnum spec_rnum bad_rnum_tok).
Eval vm_compute in ("RESULT", "C04.token_hcount", describe tree_hcount spec_hcount bad_hcount).
Eval vm_compute in ("RESULT", "C04.token_isotope", describe tree_isotope spec_isotope bad_isotope).
Eval vm_compute in ("RESULT", "C04.token_map", describe tree_map spec_map bad_map).
