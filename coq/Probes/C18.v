(* Search for failing rows of C18's finite checks: prints every offending row (the replay). No proofs. *)
From Coq Require Import List String ZArith NArith Bool.
Import ListNotations.
Require Import P.Generated.Enums P.Spec.Values P.Generated.Tables P.Spec.Spelling P.Proofs.Finite P.Checks.C18_defs.
Local Open Scope string_scope.
Eval vm_compute in ("RESULT", "charge_of_i8", bad_charge_of_i8).
Eval vm_compute in ("RESULT", "i8_of_charge", map name_charge bad_i8_of_charge).
Eval vm_compute in ("RESULT", "vh_of_u8", bad_vh_of_u8).
Eval vm_compute in ("RESULT", "u8_of_vh", map name_virtual_hydrogen bad_u8_of_vh).
Eval vm_compute in ("RESULT", "rnum_tiles", rnum_tiles_ok).
Eval vm_compute in ("RESULT", "rnum_of_u16", bad_rnum_of_u16).
Eval vm_compute in ("RESULT", "rnum_value", map name_rnum bad_rnum_value).
Eval vm_compute in ("RESULT", "number_tiles", number_tiles_ok).
Eval vm_compute in ("RESULT", "number_of_u16", bad_number_of_u16).
Eval vm_compute in ("RESULT", "number_of_digits", bad_number_of_digits).
Eval vm_compute in ("RESULT", "number_of_string", bad_number_of_string).
Eval vm_compute in ("RESULT", "reverse", map name_bond_kind bad_reverse).
Eval vm_compute in ("RESULT", "order", map name_bond_kind bad_order).
Eval vm_compute in ("RESULT", "directional", map name_bond_kind bad_directional).
Eval vm_compute in ("RESULT", "aliphatic_of_element", map name_element bad_aliphatic_of_element).
Eval vm_compute in ("RESULT", "aliphatic_of_aromatic", map name_aromatic bad_aliphatic_of_aromatic).
Eval vm_compute in ("RESULT", "bracket_aromatic", map name_bracket_aromatic bad_bracket_aromatic).
Eval vm_compute in ("RESULT", "charge_text", map (fun c => (name_charge c, display_charge c, spelling_charge c)) bad_charge_text).
Eval vm_compute in ("RESULT", "vh_text", map (fun c => (name_virtual_hydrogen c, display_virtual_hydrogen c, spelling_virtual_hydrogen c)) bad_vh_text).
Eval vm_compute in ("RESULT", "rnum_text", map (fun c => (name_rnum c, display_rnum c, spelling_rnum c)) bad_rnum_text).
Eval vm_compute in ("RESULT", "number_text", bad_number_text).
