(* Search for failing rows of the C16/C17 finite checks. *)
From Coq Require Import List String ZArith NArith Bool.
Import ListNotations.
Require Import P.Generated.Enums P.Spec.Values P.Generated.Tables P.Spec.Spelling P.Spec.Valence P.Model.Base P.Model.Atom P.Checks.Valence_defs.
Local Open Scope string_scope.
Definition show_sym (s : bracket_symbol) : string := match s with BS_Star => "*" | BS_Element e => name_element e | BS_Aromatic a => lower (name_bracket_aromatic a) end.
Definition show_h (h : option virtual_hydrogen) : string := match h with Some h => name_virtual_hydrogen h | None => "-" end.
Definition show_c (c : option charge) : string := match c with Some c => name_charge c | None => "-" end.
Eval vm_compute in ("RESULT", "C17.targets_aliphatic", map name_aliphatic bad_targets_aliphatic).
Eval vm_compute in ("RESULT", "C17.targets_aromatic", map name_aromatic bad_targets_aromatic).
Eval vm_compute in ("RESULT", "C17.targets_neutral_bracket", map show_sym bad_targets_neutral).
Eval vm_compute in ("RESULT", "C17.targets_isoelectronic", map (fun p => (show_sym (fst p), show_c (snd p), targets_bracket (fst p) (snd p))) bad_targets_charged).
Eval vm_compute in ("RESULT", "C17.targets_misc", targets_misc_ok).
Eval vm_compute in ("RESULT", "C16.is_aromatic", map show_sym bad_is_aromatic).
Eval vm_compute in ("RESULT", "C16.debracket_model_is_table", map (fun p => (show_sym (fst p), show_h (snd p))) (firstn 8 bad_debracket_model)).
Eval vm_compute in ("RESULT", "C16.debracket_meaning", map (fun t => let '(s, h, b) := t in (show_sym s, show_h h, b)) (firstn 12 bad_debracket_meaning)).
Eval vm_compute in ("RESULT", "C16.debracket_misc", debracket_misc_ok).
Eval vm_compute in ("RESULT", "C16.debracket_returns_self_when_another_field_is_present", debracket_other_field_rows).
