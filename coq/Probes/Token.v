(* Search for failing rows of the token-level finite checks (C07 display/injectivity/in-position; C06 panic leaves). *)
From Coq Require Import List String ZArith NArith Bool.
Import ListNotations.
Require Import P.Generated.Enums P.Spec.Values P.Generated.Tables P.Meta.Scan P.Generated.Trees P.Spec.Spelling P.Spec.Normal P.Model.Base P.Model.Token P.Checks.Token_defs.
Local Open Scope string_scope.
Definition show (l : list char) : string := string_of_list_ascii (map Ascii.ascii_of_N l).
Definition showc (c : option char) : string := match c with Some c => show [c] | None => "<end>" end.
Definition rows (l : list (list char * option char)) := map (fun p => (show (fst p), showc (snd p))) (firstn 10 l).
Definition d3 {A} (name : A -> string) (disp spell : A -> string) (l : list A) := map (fun x => (name x, disp x, spell x)) l.
Eval vm_compute in ("RESULT", "C07.display_element", d3 name_element display_element spelling_element bad_display_element).
Eval vm_compute in ("RESULT", "C07.display_aliphatic", d3 name_aliphatic display_aliphatic spelling_aliphatic bad_display_aliphatic).
Eval vm_compute in ("RESULT", "C07.display_aromatic", d3 name_aromatic display_aromatic spelling_aromatic bad_display_aromatic).
Eval vm_compute in ("RESULT", "C07.display_bracket_aromatic", d3 name_bracket_aromatic display_bracket_aromatic spelling_bracket_aromatic bad_display_bracket_aromatic).
Eval vm_compute in ("RESULT", "C07.display_configuration", d3 name_configuration display_configuration spelling_configuration bad_display_configuration).
Eval vm_compute in ("RESULT", "C07.display_charge", d3 name_charge display_charge spelling_charge bad_display_charge).
Eval vm_compute in ("RESULT", "C07.display_virtual_hydrogen", d3 name_virtual_hydrogen display_virtual_hydrogen spelling_virtual_hydrogen bad_display_virtual_hydrogen).
Eval vm_compute in ("RESULT", "C07.display_rnum", d3 name_rnum display_rnum spelling_rnum bad_display_rnum).
Eval vm_compute in ("RESULT", "C07.display_bond_kind", d3 name_bond_kind display_bond_kind spelling_bond_kind bad_display_bond_kind).
Eval vm_compute in ("RESULT", "C07.injective_element", map (fun p => (name_element (fst p), name_element (snd p))) clash_element).
Eval vm_compute in ("RESULT", "C07.injective_symbol", map (fun p => (display_symbol (fst p), display_symbol (snd p))) clash_symbol).
Eval vm_compute in ("RESULT", "C07.injective_organic", map (fun p => (display_kind (fst p), display_kind (snd p))) clash_organic).
Eval vm_compute in ("RESULT", "C07.injective_configuration", map (fun p => (opt_str name_configuration (fst p), opt_str name_configuration (snd p))) clash_configuration).
Eval vm_compute in ("RESULT", "C07.injective_hcount", map (fun p => (opt_str name_virtual_hydrogen (fst p), opt_str name_virtual_hydrogen (snd p))) clash_hcount).
Eval vm_compute in ("RESULT", "C07.injective_charge", map (fun p => (opt_str name_charge (fst p), opt_str name_charge (snd p))) clash_charge).
Eval vm_compute in ("RESULT", "C07.injective_rnum", map (fun p => (name_rnum (fst p), name_rnum (snd p))) clash_rnum).
Eval vm_compute in ("RESULT", "C07.injective_bond", map (fun p => (name_bond_kind (fst p), name_bond_kind (snd p))) clash_bond).
Eval vm_compute in ("RESULT", "C07.reads_isotope", rows bad_field_isotope).
Eval vm_compute in ("RESULT", "C07.reads_symbol", rows bad_field_symbol).
Eval vm_compute in ("RESULT", "C07.reads_configuration", rows bad_field_configuration).
Eval vm_compute in ("RESULT", "C07.reads_hcount", rows bad_field_hcount).
Eval vm_compute in ("RESULT", "C07.reads_charge", rows bad_field_charge).
Eval vm_compute in ("RESULT", "C07.reads_map", rows bad_field_map).
Eval vm_compute in ("RESULT", "C07.reads_organic", rows bad_organic).
Eval vm_compute in ("RESULT", "C07.reads_organic_none", rows bad_organic_none).
Eval vm_compute in ("RESULT", "C07.reads_bond", rows bad_bond).
Eval vm_compute in ("RESULT", "C07.reads_bond_elided", rows bad_bond_elided).
Eval vm_compute in ("RESULT", "C07.reads_rnum", rows bad_rnum).
Eval vm_compute in ("RESULT", "C07.reads_rnum_none", rows bad_rnum_none).
Eval vm_compute in ("RESULT", "C06.token_panic_leaves", map show (panics tree_symbol ++ panics tree_organic ++ panics tree_configuration ++ panics tree_charge ++ panics tree_bond ++ panics tree_rnum ++ panics tree_hcount ++ panics tree_isotope ++ panics tree_map)%list).
Eval vm_compute in ("RESULT", "corr.token_none_consumes", map show (none_consumes tree_organic ++ none_consumes tree_configuration ++ none_consumes tree_charge ++ none_consumes tree_rnum ++ none_consumes tree_hcount ++ none_consumes tree_isotope ++ none_consumes tree_map)%list).
