(* Model of src/read/read.rs (after the F17 repair: chains and dots continue in the loop of read_smiles, only
   <branch> recurses).  Besides the follower events the model keeps the cursors handed to Trace, the verdict with
   its cursor, and the nesting depth of read_smiles calls. *)
From Coq Require Import List NArith Lia Bool Arith.
Import ListNotations.
Require Import P.Generated.Enums P.Spec.Values P.Meta.Scan P.Model.Base P.Model.Token.

Definition LP : char := 40%N.  Definition RP : char := 41%N.  Definition DOT : char := 46%N.

(* follower call + the matching Trace call *)
Inductive rcall :=
| RRoot (k : kind) (a b : nat)                               (* trace.root(a..b) *)
| RExtend (bk : bond_kind) (k : kind) (bc a b : nat)         (* trace.extend(bc, a..b) *)
| RJoin (bk : bond_kind) (r : rnumN) (bc a b : nat)          (* trace.join(bc, a..b, r) *)
| RPop (n : nat).
Definition ev_of (e : rcall) : ev :=
  match e with RRoot k _ _ => ERoot k | RExtend b k _ _ _ => EExtend b k | RJoin b r _ _ _ => EJoin b r | RPop n => EPop n end.

Record rstate := { rest : list char; pos : nat; out : list rcall (* reversed *); maxd : nat }.
Inductive rres (A : Type) := ROk (v : A) | RErrEol | RErrChar (i : nat) | RPanic | RFuel.
Arguments ROk {A}. Arguments RErrEol {A}. Arguments RErrChar {A}. Arguments RPanic {A}. Arguments RFuel {A}.

Definition adv (s : rstate) (n : nat) : rstate := {| rest := skipn n (rest s); pos := pos s + n; out := out s; maxd := maxd s |}.
Definition emit (s : rstate) (e : rcall) : rstate := {| rest := rest s; pos := pos s; out := e :: out s; maxd := maxd s |}.
Definition peek (s : rstate) : option char := hd_error (rest s).
Definition missing_character {A} (s : rstate) : rres A := match rest s with [] => RErrEol | _ => RErrChar (pos s) end.
Definition tok_err {A B} (t : tok A) (s : rstate) : rres B :=
  match t with TErrEol => RErrEol | TErrChar i => RErrChar (pos s + i) | _ => RPanic end.

(* read_link: one atom, reported as a root or as an extension of head *)
Definition read_link (input : option bond_kind) (s : rstate) : rres bool * rstate :=
  let cursor := pos s in
  match read_atom (rest s) with
  | TNo => (ROk false, s)
  | TOk k n =>
      let s' := adv s n in
      (ROk true, emit s' (match input with
                          | Some b => RExtend b k (if bondk_eqb b BK_Elided then cursor else cursor - 1) cursor (pos s')
                          | None => RRoot k cursor (pos s') end))
  | t => (tok_err t s, s)
  end.

Section Loop.
Variable rs : option bond_kind -> rstate -> rres (option nat) * rstate.   (* read_smiles, one level deeper *)

(* <branch> ::= "(" ( <dot> | <bond> )? <smiles> ")" *)
Definition read_branch (s : rstate) : rres bool * rstate :=
  match peek s with
  | Some c =>
    if N.eqb c LP then
      let s := adv s 1 in
      let r := match peek s with
               | Some c' => if N.eqb c' DOT then rs None (adv s 1)
                            else let '(b, n) := read_bond (rest s) in rs (Some b) (adv s n)
               | None => let '(b, n) := read_bond (rest s) in rs (Some b) (adv s n)
               end in
      match r with
      | (ROk (Some len), s) =>
          match peek s with
          | Some c'' => if N.eqb c'' RP then (ROk true, emit (adv s 1) (RPop len)) else (missing_character s, s)
          | None => (missing_character s, s)
          end
      | (ROk None, s) => (missing_character s, s)
      | (RErrEol, s) => (RErrEol, s) | (RErrChar i, s) => (RErrChar i, s) | (RPanic, s) => (RPanic, s) | (RFuel, s) => (RFuel, s)
      end
    else (ROk false, s)
  | None => (ROk false, s)
  end.

(* the loop of read_smiles; [acc] is the chain length so far.  Every iteration that continues consumes input,
   so fuel S (length rest) suffices (OutOfFuel is excluded by theorem) *)
Fixpoint loop (g : nat) (s : rstate) (acc : nat) : rres (option nat) * rstate :=
  match g with 0 => (RFuel, s) | S g =>
  match read_branch s with
  | (ROk true, s) => loop g s acc
  | (ROk false, s) =>
      let dot := match peek s with Some c => N.eqb c DOT | None => false end in
      if dot then
        (* <split> ::= <dot> <smiles> *)
        match read_link None (adv s 1) with
        | (ROk true, s) => loop g s (S acc)
        | (ROk false, s) => (missing_character s, s)
        | (RErrEol, s) => (RErrEol, s) | (RErrChar i, s) => (RErrChar i, s) | (RPanic, s) => (RPanic, s) | (RFuel, s) => (RFuel, s)
        end
      else
        (* <union> ::= <bond>? ( <smiles> | <rnum> ) *)
        let bond_cursor := pos s in
        let '(b, n) := read_bond (rest s) in
        let s := adv s n in
        match read_link (Some b) s with
        | (ROk true, s) => loop g s (S acc)
        | (ROk false, s) =>
            let cursor := pos s in
            match read_rnum (rest s) with
            | TOk r n => let s := adv s n in loop g (emit s (RJoin b r bond_cursor cursor (pos s))) acc
            | TNo => if bondk_eqb b BK_Elided then (ROk (Some acc), s) else (missing_character s, s)
            | t => (tok_err t s, s)
            end
        | (RErrEol, s) => (RErrEol, s) | (RErrChar i, s) => (RErrChar i, s) | (RPanic, s) => (RPanic, s) | (RFuel, s) => (RFuel, s)
        end
  | (RErrEol, s) => (RErrEol, s) | (RErrChar i, s) => (RErrChar i, s) | (RPanic, s) => (RPanic, s) | (RFuel, s) => (RFuel, s)
  end end.
End Loop.

(* [f] bounds the nesting of read_smiles calls (branch depth); [d] is the current depth *)
Fixpoint read_smiles (f : nat) (d : nat) (input : option bond_kind) (s : rstate) : rres (option nat) * rstate :=
  match f with 0 => (RFuel, s) | S f =>
  let s := {| rest := rest s; pos := pos s; out := out s; maxd := Nat.max (maxd s) (S d) |} in
  match read_link input s with
  | (ROk false, s) => (ROk None, s)
  | (ROk true, s) => loop (read_smiles f (S d)) (S (length (rest s))) s 1
  | (RErrEol, s) => (RErrEol, s) | (RErrChar i, s) => (RErrChar i, s) | (RPanic, s) => (RPanic, s) | (RFuel, s) => (RFuel, s)
  end end.

Inductive verdict := VOk | VEol | VChar (i : nat) | VPanic | VFuel.
Definition verdict_eqb (a b : verdict) := match a, b with VOk, VOk | VEol, VEol | VPanic, VPanic | VFuel, VFuel => true | VChar i, VChar j => Nat.eqb i j | _, _ => false end.
Record rout := { r_verdict : verdict; r_events : list rcall; r_depth : nat }.
Definition read_from (s0 : rstate) (fuel : nat) : rout :=
  let '(r, s) := read_smiles fuel 0 None s0 in
  let v := match r with
           | ROk (Some _) => match rest s with [] => VOk | _ => VChar (pos s) end
           | ROk None => match rest s with [] => VEol | _ => VChar (pos s) end
           | RErrEol => VEol | RErrChar i => VChar i | RPanic => VPanic | RFuel => VFuel end in
  {| r_verdict := v; r_events := rev (out s); r_depth := maxd s |}.
Definition read (s : list char) : rout := read_from {| rest := s; pos := 0; out := []; maxd := 0 |} (S (length s)).
Definition rd (s : list char) : verdict * list ev := let r := read s in (r_verdict r, map ev_of (r_events r)).
