(* Model of src/graph/join_pool.rs (after the F8/F18 repairs): look the pair up first, allocate only when opening;
   the free list is a BinaryHeap used as a min-heap, modelled as a list with extract-min (direction fixed by the
   pool-alone correspondence). *)
From Coq Require Import List NArith Lia Bool Arith.
Import ListNotations.
Require Import P.Model.Base.
Local Open Scope N_scope.

Record pool := { counter : N; borrowed : list ((nat * nat) * N); replaced : list N }.
Definition pool0 := {| counter := 1; borrowed := []; replaced := [] |}.
Definition pair_eqb (p q : nat * nat) : bool :=
  (Nat.eqb (fst p) (fst q) && Nat.eqb (snd p) (snd q)) || (Nat.eqb (fst p) (snd q) && Nat.eqb (snd p) (fst q)).
Fixpoint lookup (b : list ((nat * nat) * N)) (p : nat * nat) : option N :=
  match b with [] => None | (q, n) :: t => if pair_eqb q p then Some n else lookup t p end.
Fixpoint remove (b : list ((nat * nat) * N)) (p : nat * nat) :=
  match b with [] => [] | (q, n) :: t => if pair_eqb q p then t else (q, n) :: remove t p end.
Fixpoint list_min (l : list N) : option N :=
  match l with [] => None | x :: t => match list_min t with None => Some x | Some m => Some (N.min x m) end end.
Fixpoint remove_one (l : list N) (x : N) : list N :=
  match l with [] => [] | y :: t => if N.eqb x y then t else y :: remove_one t x end.

Inductive pres := POk (r : rnumN) (p : pool) | PPanicRnum | PPanicCounter.

Definition hit (p : pool) (sid tid : nat) : pres :=
  match lookup (borrowed p) (sid, tid) with
  | Some result =>
      match to_rnum result with
      | Some r => POk r {| counter := counter p; borrowed := remove (borrowed p) (sid, tid); replaced := result :: replaced p |}
      | None => PPanicRnum end
  | None =>
      match list_min (replaced p) with
      | Some m =>
          match to_rnum m with
          | Some r => POk r {| counter := counter p; borrowed := ((sid, tid), m) :: borrowed p; replaced := remove_one (replaced p) m |}
          | None => PPanicRnum end
      | None =>
          if 65535 <=? counter p then PPanicCounter          (* u16 `counter += 1` *)
          else match to_rnum (counter p) with
               | Some r => POk r {| counter := counter p + 1; borrowed := ((sid, tid), counter p) :: borrowed p; replaced := replaced p |}
               | None => PPanicRnum end
      end
  end.

Fixpoint hits (p : pool) (l : list (nat * nat)) : list (option rnumN) :=
  match l with [] => [] | (a, b) :: t => match hit p a b with POk r p' => Some r :: hits p' t | _ => [None] end end.
