(* Model of src/walk/walk.rs (after the F12/F13 repairs): validate every half-bond, then an explicit-stack
   depth-first traversal, one [step] per iteration of `while let Some((sid, bond)) = stack.pop()`. *)
From Coq Require Import List NArith Lia Bool Arith.
Import ListNotations.
Require Import P.Generated.Enums P.Spec.Values P.Generated.Tables P.Model.Base P.Model.Pool.

Inductive werr := HalfBond (a b : nat) | DuplicateBond (a b : nat) | UnknownTarget (a b : nat)
                | IncompatibleBond (a b : nat) | Loop (a : nat).
Inductive wres := WOk | WErr (e : werr) | WPanic (site : nat) | WFuel.
(* sites: 1 = chain head (K1), 2 = invert_configuration (K2), 3 = pool rnum (K3), 4 = pool counter (K4) *)

(* ---- validate ---- *)
Definition compatible (b back : bond) : bool :=
  if is_directional (bk b) then bondk_eqb (bk b) (reverse (bk back)) else bondk_eqb (bk b) (bk back).
(* the scan of graph[bond.tid].bonds for bonds back to sid *)
Fixpoint find_back (outs : list bond) (sid : nat) (back : option bond) : option (option bond) :=   (* None = duplicate *)
  match outs with
  | [] => Some back
  | o :: t => if Nat.eqb (tid o) sid then match back with None => find_back t sid (Some o) | Some _ => None end
              else find_back t sid back
  end.
Definition validate_bond (g : list atom) (sid : nat) (b : bond) : option werr :=
  if length g <=? tid b then Some (UnknownTarget sid (tid b))
  else if Nat.eqb (tid b) sid then Some (Loop sid)
  else match nth_error g (tid b) with
       | None => Some (UnknownTarget sid (tid b))
       | Some a => match find_back (bonds a) sid None with
                   | None => Some (DuplicateBond sid (tid b))
                   | Some None => Some (HalfBond sid (tid b))
                   | Some (Some back) => if compatible b back then None else Some (IncompatibleBond (tid b) sid)
                   end
       end.
Fixpoint first_err {A} (f : A -> option werr) (l : list A) : option werr :=
  match l with [] => None | x :: t => match f x with Some e => Some e | None => first_err f t end end.
Definition enumerate {A} (l : list A) : list (nat * A) := combine (seq 0 (length l)) l.
Definition validate (g : list atom) : option werr :=
  first_err (fun p => first_err (validate_bond g (fst p)) (bonds (snd p))) (enumerate g).

(* ---- traversal ---- *)
Record wstate := { rem : list (option atom); stk : list (nat * bond); chain : list nat;
                   wpool : pool; evs : list ev (* reversed *) }.

(* unwind the chain until its head is sid; None = chain exhausted (expect("chain head")) *)
Fixpoint unwind (ch : list nat) (sid : nat) (n : nat) : option (list nat * nat) :=
  match ch with
  | [] => None
  | h :: t => if Nat.eqb h sid then Some (ch, n) else unwind t sid (S n)
  end.

(* the loop over child.bonds.into_iter().enumerate().rev() *)
Inductive scanres := SOk (k : kind) (back : option bond) (pushes : list bond) | SDup | SPanic.
Fixpoint scan_bonds (l : list (nat * bond)) (sid : nat) (k : kind) (back : option bond) (pushes : list bond) : scanres :=
  match l with
  | [] => SOk k back pushes
  | (idx, out) :: t =>
      if Nat.eqb (tid out) sid then
        match (if Nat.even idx then invert k else KOk (invert_noH k)) with
        | KPanic => SPanic
        | KOk k' => match back with
                    | None => scan_bonds t sid k' (Some out) pushes
                    | Some _ => SDup end
        end
      else scan_bonds t sid k back (out :: pushes)     (* stack.push: later pushes end up on top *)
  end.

Inductive stepres := Cont (s : wstate) | Done (s : wstate) | Stop (r : wres) (s : wstate).

Definition step (size : nat) (s : wstate) : stepres :=
  match stk s with
  | [] => Done s
  | (sid, b) :: stk' =>
      if size <=? tid b then Stop (WErr (UnknownTarget sid (tid b))) s
      else if Nat.eqb (tid b) sid then Stop (WErr (Loop sid)) s
      else match unwind (chain s) sid 0 with
           | None => Stop (WPanic 1) s
           | Some (ch, popcount) =>
               let evs1 := if Nat.eqb popcount 0 then evs s else EPop popcount :: evs s in
               match nth (tid b) (rem s) None with
               | Some child =>
                   let rem' := set_nth (rem s) (tid b) None in
                   match scan_bonds (rev (enumerate (bonds child))) sid (akind child) None [] with
                   | SPanic => Stop (WPanic 2) {| rem := rem'; stk := stk'; chain := ch; wpool := wpool s; evs := evs1 |}
                   | SDup => Stop (WErr (DuplicateBond sid (tid b))) {| rem := rem'; stk := stk'; chain := ch; wpool := wpool s; evs := evs1 |}
                   | SOk k back pushes =>
                       let s1 := {| rem := rem'; stk := map (pair (tid b)) pushes ++ stk'; chain := ch; wpool := wpool s; evs := evs1 |} in
                       match back with
                       | None => Stop (WErr (HalfBond sid (tid b))) s1
                       | Some bk' =>
                           if negb (compatible b bk')
                           then Stop (WErr (IncompatibleBond (tid b) sid)) s1
                           else Cont {| rem := rem'; stk := map (pair (tid b)) pushes ++ stk'; chain := tid b :: ch;
                                        wpool := wpool s; evs := EExtend (bk b) k :: evs1 |}
                       end
                   end
               | None =>
                   match hit (wpool s) sid (tid b) with
                   | POk r p' => Cont {| rem := rem s; stk := stk'; chain := ch; wpool := p'; evs := EJoin (bk b) r :: evs1 |}
                   | PPanicRnum => Stop (WPanic 3) {| rem := rem s; stk := stk'; chain := ch; wpool := wpool s; evs := evs1 |}
                   | PPanicCounter => Stop (WPanic 4) {| rem := rem s; stk := stk'; chain := ch; wpool := wpool s; evs := evs1 |}
                   end
               end
           end
  end.

Fixpoint run_root (fuel size : nat) (s : wstate) : wres * wstate :=
  match fuel with
  | 0 => (WFuel, s)
  | S f => match step size s with
           | Cont s' => run_root f size s'
           | Done s' => (WOk, s')
           | Stop r s' => (r, s') end
  end.

(* walk_root: push the root's bonds, emit root, run *)
Definition start_root (s : wstate) (pid : nat) (parent : atom) : wstate :=
  {| rem := set_nth (rem s) pid None; stk := map (pair pid) (bonds parent); chain := [pid];
     wpool := wpool s; evs := ERoot (akind parent) :: evs s |}.

Definition total_bonds (g : list atom) := fold_right (fun a n => length (bonds a) + n) 0 g.

Fixpoint outer (ids : list nat) (fuel size : nat) (s : wstate) : wres * wstate :=
  match ids with
  | [] => (WOk, s)
  | id :: rest =>
      match nth id (rem s) None with
      | None => outer rest fuel size s
      | Some root =>
          match run_root fuel size (start_root s id root) with
          | (WOk, s') => outer rest fuel size s'
          | (r, s') => (r, s') end
      end
  end.

Definition state0 (g : list atom) := {| rem := map Some g; stk := []; chain := []; wpool := pool0; evs := [] |}.
(* the traversal proper, without the validation pass *)
Definition traverse (g : list atom) : wres * list ev :=
  let '(r, s) := outer (seq 0 (length g)) (S (total_bonds g)) (length g) (state0 g) in
  (r, rev (evs s)).
Definition walk (g : list atom) : wres * list ev :=
  match validate g with
  | Some e => (WErr e, [])
  | None => traverse g
  end.
