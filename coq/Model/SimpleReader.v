(* The reader with cursors, error positions and depth counter erased: same control flow as Model/Reader.v, state =
   (remaining input, events so far, reversed).  Proofs about accepted language and replayed events are done here;
   Proofs/ReaderSim.v shows that Model/Reader.v projects onto it. *)
From Coq Require Import List NArith Lia Bool Arith.
Import ListNotations.
Require Import P.Generated.Enums P.Spec.Values P.Meta.Scan P.Model.Base P.Model.Token P.Model.Reader.

Inductive sverdict := VErr | VOut.        (* an error of some kind / out of fuel *)
Definition SR := (option nat + sverdict)%type.
Definition st := (list char * list ev)%type.
Definition sadv (s : st) (n : nat) : st := (skipn n (fst s), snd s).
Definition semit (s : st) (e : ev) : st := (fst s, e :: snd s).
Definition speek (s : st) := hd_error (fst s).

Definition sread_link (input : option bond_kind) (s : st) : (bool + sverdict) * st :=
  match read_atom (fst s) with
  | TNo => (inl false, s)
  | TOk k n => (inl true, semit (sadv s n) (match input with Some b => EExtend b k | None => ERoot k end))
  | _ => (inr VErr, s)
  end.

Section Loop.
Variable rs : option bond_kind -> st -> SR * st.
Definition sread_branch (s : st) : (bool + sverdict) * st :=
  match speek s with
  | Some c =>
    if N.eqb c LP then
      let s := sadv s 1 in
      let r := match speek s with
               | Some c' => if N.eqb c' DOT then rs None (sadv s 1)
                            else let '(b, n) := read_bond (fst s) in rs (Some b) (sadv s n)
               | None => let '(b, n) := read_bond (fst s) in rs (Some b) (sadv s n)
               end in
      match r with
      | (inl (Some len), s) =>
          match speek s with
          | Some c'' => if N.eqb c'' RP then (inl true, semit (sadv s 1) (EPop len)) else (inr VErr, s)
          | None => (inr VErr, s)
          end
      | (inl None, s) => (inr VErr, s)
      | (inr v, s) => (inr v, s)
      end
    else (inl false, s)
  | None => (inl false, s)
  end.

Fixpoint sloop (g : nat) (s : st) (acc : nat) : SR * st :=
  match g with 0 => (inr VOut, s) | S g =>
  match sread_branch s with
  | (inr v, s) => (inr v, s)
  | (inl true, s) => sloop g s acc
  | (inl false, s) =>
      let dot := match speek s with Some c => N.eqb c DOT | None => false end in
      if dot then
        match sread_link None (sadv s 1) with
        | (inl true, s) => sloop g s (S acc)
        | (inl false, s) => (inr VErr, s)
        | (inr v, s) => (inr v, s) end
      else
        let '(b, n) := read_bond (fst s) in
        let s := sadv s n in
        match sread_link (Some b) s with
        | (inl true, s) => sloop g s (S acc)
        | (inr v, s) => (inr v, s)
        | (inl false, s) =>
            match read_rnum (fst s) with
            | TOk r n => sloop g (semit (sadv s n) (EJoin b r)) acc
            | TNo => if bondk_eqb b BK_Elided then (inl (Some acc), s) else (inr VErr, s)
            | _ => (inr VErr, s)
            end
        end
  end end.
End Loop.

Fixpoint sread_smiles (f : nat) (input : option bond_kind) (s : st) : SR * st :=
  match f with 0 => (inr VOut, s) | S f =>
  match sread_link input s with
  | (inl false, s) => (inl None, s)
  | (inr v, s) => (inr v, s)
  | (inl true, s) => sloop (sread_smiles f) (S (length (fst s))) s 1
  end end.

(* accepted? and the events emitted (in order) *)
Definition sread (s : list char) : bool * list ev :=
  let '(r, s') := sread_smiles (S (length s)) None (s, []) in
  (match r with inl (Some _) => match fst s' with [] => true | _ => false end | _ => false end, rev (snd s')).
