(* Token layer of the reader (T2 trees sequenced by hand, T3) and text form of atom kinds, bonds, ring numbers. *)
From Coq Require Import List String Ascii NArith Lia Bool Arith.
Import ListNotations.
Require Import P.Generated.Enums P.Spec.Values P.Generated.Tables P.Meta.Scan P.Generated.Trees P.Spec.Spelling P.Model.Base.

Definition chars (s : string) : list char := map N_of_ascii (list_ascii_of_string s).

(* result of a token production run at the current scanner position; [n] = characters consumed;
   error indices are relative to the position where the production started *)
Inductive tok (A : Type) := TOk (v : A) (n : nat) | TNo | TErrEol | TErrChar (i : nat) | TPanic.
Arguments TOk {A}. Arguments TNo {A}. Arguments TErrEol {A}. Arguments TErrChar {A}. Arguments TPanic {A}.

Definition of_run {V} (r : res V) : tok V :=
  match r_out r with
  | OVal v => TOk v (r_pos r)
  | ONone => if Nat.eqb (r_pos r) 0 then TNo else TPanic     (* "no token here" never consumes (checked on the tries) *)
  | OErrEol => TErrEol
  | OErrChar i => TErrChar i
  | OPanic _ => TPanic
  end.
Definition run_tok {V} (t : tree V) (s : list char) : tok V := of_run (run t s 0 0).

Definition read_organic (s : list char) : tok kind :=
  match run_tok tree_organic s with
  | TOk (Org_Aliphatic a) n => TOk (AK_Aliphatic a) n
  | TOk (Org_Aromatic a) n => TOk (AK_Aromatic a) n
  | TOk Org_Other _ => TPanic
  | TNo => TNo | TErrEol => TErrEol | TErrChar i => TErrChar i | TPanic => TPanic
  end.
Definition read_bond (s : list char) : bond_kind * nat :=
  match run_tok tree_bond s with TOk b n => (b, n) | _ => (BK_Elided, 0) end.
(* the number an Rnum value stands for is the one in its variant name (R73 -> 73); the harness renders Rnum values the same way *)
Definition rnum_number (r : rnum) : N := rnum_value r.
Definition read_rnum (s : list char) : tok rnumN :=
  match run_tok tree_rnum s with
  | TOk r n => TOk (rnum_number r) n
  | TNo => TNo | TErrEol => TErrEol | TErrChar i => TErrChar i | TPanic => TPanic
  end.

(* optional field: absent means "nothing consumed" *)
Definition bind_opt {A B} (t : tok A) (off : nat) (k : option A -> nat -> tok B) : tok B :=
  match t with
  | TOk v n => k (Some v) (off + n)
  | TNo => k None off
  | TErrEol => TErrEol
  | TErrChar i => TErrChar (off + i)
  | TPanic => TPanic
  end.
Definition bind_req {A B} (t : tok A) (off : nat) (k : A -> nat -> tok B) : tok B :=
  match t with
  | TOk v n => k v (off + n)
  | TNo => TPanic
  | TErrEol => TErrEol
  | TErrChar i => TErrChar (off + i)
  | TPanic => TPanic
  end.
Definition LB : char := 91%N.  Definition RB : char := 93%N.  Definition STAR : char := 42%N.
(* read_bracket: "[" isotope? symbol configuration? hcount? charge? map? "]" *)
Definition read_bracket (s : list char) : tok kind :=
  match s with
  | c :: _ =>
    if N.eqb c LB then
      bind_opt (run_tok tree_isotope (skipn 1 s)) 1 (fun iso o =>
      bind_req (run_tok tree_symbol (skipn o s)) o (fun sym o =>
      bind_opt (run_tok tree_configuration (skipn o s)) o (fun cfg o =>
      bind_opt (run_tok tree_hcount (skipn o s)) o (fun h o =>
      bind_opt (run_tok tree_charge (skipn o s)) o (fun chg o =>
      bind_opt (run_tok tree_map (skipn o s)) o (fun mp o =>
        match skipn o s with
        | c' :: _ => if N.eqb c' RB then TOk (AK_Bracket iso sym cfg h chg mp) (S o) else TErrChar o
        | [] => TErrEol
        end))))))
    else TNo
  | [] => TNo
  end.
Definition read_star (s : list char) : tok kind :=
  match s with c :: _ => if N.eqb c STAR then TOk AK_Star 1 else TNo | [] => TNo end.
(* read_atom ::= organic | bracket | star *)
Definition read_atom (s : list char) : tok kind :=
  match read_organic s with
  | TNo => match read_bracket s with TNo => read_star s | x => x end
  | x => x
  end.

(* ---------- Display ---------- *)
Definition opt_str {A} (f : A -> string) (o : option A) : string := match o with Some x => f x | None => EmptyString end.
Definition display_symbol (s : bracket_symbol) : string :=
  match s with BS_Star => "*" | BS_Element e => display_element e | BS_Aromatic a => display_bracket_aromatic a end.
Definition display_kind (k : kind) : string :=
  match k with
  | AK_Star => "*"
  | AK_Aliphatic a => display_aliphatic a
  | AK_Aromatic a => display_aromatic a
  | AK_Bracket i s c h g m =>
      "[" ++ opt_str dec i ++ display_symbol s ++ opt_str display_configuration c ++ opt_str display_virtual_hydrogen h
          ++ opt_str display_charge g ++ opt_str (fun n => ":" ++ dec n) m ++ "]"
  end%string.
Definition pp_kind (k : kind) : list char := chars (display_kind k).
Definition pp_bond (b : bond_kind) : list char := chars (display_bond_kind b).
Definition rnum_of_number (n : N) : option rnum := find (fun r => N.eqb (rnum_value r) n) all_rnum.
Definition pp_rnum (r : rnumN) : list char := match rnum_of_number r with Some x => chars (display_rnum x) | None => [] end.
