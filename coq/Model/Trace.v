(* Model of src/read/trace.rs: the Trace structure driven by the cursor calls of the reader. *)
From Coq Require Import List NArith Lia Bool Arith.
Import ListNotations.
Require Import P.Generated.Enums P.Spec.Values P.Model.Base P.Model.Token P.Model.Reader.

Record topen := { o_sid : nat; o_bond_cursor : nat }.
Record trace := { t_atoms : list (nat * nat);                 (* Vec<Range> : atom id -> a..b *)
                  t_bonds : list ((nat * nat) * nat);         (* HashMap<(sid,tid), cursor>, latest insert first *)
                  t_stack : list nat;                         (* head first *)
                  t_opens : list (rnumN * topen);
                  t_rnums : list (nat * nat) }.
Definition trace0 := {| t_atoms := []; t_bonds := []; t_stack := []; t_opens := []; t_rnums := [] |}.
Fixpoint oget (o : list (rnumN * topen)) (r : rnumN) : option topen :=
  match o with [] => None | (q, v) :: t => if N.eqb q r then Some v else oget t r end.
Fixpoint odel (o : list (rnumN * topen)) (r : rnumN) :=
  match o with [] => [] | (q, v) :: t => if N.eqb q r then t else (q, v) :: odel t r end.
(* None = panic ("last on stack", "overpop") *)
Definition tstep (t : trace) (e : rcall) : option trace :=
  match e with
  | RRoot _ a b => Some {| t_atoms := t_atoms t ++ [(a, b)]; t_bonds := t_bonds t; t_stack := length (t_atoms t) :: t_stack t;
                           t_opens := t_opens t; t_rnums := t_rnums t |}
  | RExtend _ _ bc a b =>
      match t_stack t with
      | [] => None
      | sid :: _ => let tid := length (t_atoms t) in
          Some {| t_atoms := t_atoms t ++ [(a, b)]; t_bonds := ((tid, sid), bc) :: ((sid, tid), bc) :: t_bonds t;
                  t_stack := tid :: t_stack t; t_opens := t_opens t; t_rnums := t_rnums t |}
      end
  | RJoin _ r bc a b =>
      match t_stack t with
      | [] => None
      | sid :: _ =>
          match oget (t_opens t) r with
          | Some o => Some {| t_atoms := t_atoms t; t_bonds := ((o_sid o, sid), o_bond_cursor o) :: ((sid, o_sid o), bc) :: t_bonds t;
                              t_stack := t_stack t; t_opens := odel (t_opens t) r; t_rnums := t_rnums t ++ [(a, b)] |}
          | None => Some {| t_atoms := t_atoms t; t_bonds := t_bonds t; t_stack := t_stack t;
                            t_opens := (r, {| o_sid := sid; o_bond_cursor := bc |}) :: t_opens t; t_rnums := t_rnums t ++ [(a, b)] |}
          end
      end
  | RPop d => if length (t_stack t) <=? d then None
              else Some {| t_atoms := t_atoms t; t_bonds := t_bonds t; t_stack := skipn d (t_stack t); t_opens := t_opens t; t_rnums := t_rnums t |}
  end.
Fixpoint tfold (t : trace) (h : list rcall) : option trace :=
  match h with [] => Some t | e :: r => match tstep t e with Some t' => tfold t' r | None => None end end.
Definition trace_atom (t : trace) (i : nat) : option (nat * nat) := nth_error (t_atoms t) i.
Definition trace_rnum (t : trace) (i : nat) : option (nat * nat) := nth_error (t_rnums t) i.
Definition trace_bond (t : trace) (s d : nat) : option nat :=
  option_map snd (find (fun p => Nat.eqb (fst (fst p)) s && Nat.eqb (snd (fst p)) d) (t_bonds t)).
