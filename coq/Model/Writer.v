(* Model of src/write/writer.rs: a stack of text segments (kept bottom first, as the Vec is). *)
From Coq Require Import List NArith Lia Bool Arith.
Import ListNotations.
Require Import P.Generated.Enums P.Spec.Values P.Meta.Scan P.Model.Base P.Model.Token P.Model.Reader.

Definition wstate := list (list char).        (* stack of segments, bottom first *)
Definition split_last {A} (l : list A) : option (list A * A) :=
  match rev l with [] => None | x :: r => Some (rev r, x) end.
(* None = panic *)
Definition w_step (s : wstate) (e : ev) : option wstate :=
  match e with
  | ERoot k => Some (s ++ [match s with [] => pp_kind k | _ => DOT :: pp_kind k end])
  | EExtend b k => Some (s ++ [pp_bond b ++ pp_kind k])
  | EJoin b r => match split_last s with
                 | None => None                                   (* expect("last") *)
                 | Some (init, last) => Some (init ++ [last ++ pp_bond b ++ pp_rnum r]) end
  | EPop d => if length s <=? d then None                         (* panic!("overpop") *)
              else let keep := firstn (length s - d) s in
                   let chain := skipn (length s - d) s in
                   match split_last keep with
                   | None => None
                   | Some (init, last) => Some (init ++ [last ++ LP :: concat chain ++ [RP]]) end
  end.
Fixpoint w_fold (s : wstate) (h : list ev) : option wstate :=
  match h with [] => Some s | e :: t => match w_step s e with None => None | Some s' => w_fold s' t end end.
Definition wr (h : list ev) : option (list char) := option_map (@concat char) (w_fold [] h).
