(* Model of src/write/writer.rs: a stack of text segments. *)
From Coq Require Import List NArith Lia Bool Arith.
Import ListNotations.
Require Import P.Generated.Enums P.Spec.Values P.Meta.Scan P.Model.Base P.Model.Token P.Model.Reader.

(* the stack is kept head first (last segment of the Vec first) *)
Definition wstack := list (list char).
(* None = panic ("last", "overpop") *)
Definition w_step (st : wstack) (e : ev) : option wstack :=
  match e with
  | ERoot k => Some ((match st with [] => pp_kind k | _ => DOT :: pp_kind k end) :: st)
  | EExtend b k => Some ((pp_bond b ++ pp_kind k) :: st)
  | EJoin b r => match st with [] => None | last :: t => Some ((last ++ pp_bond b ++ pp_rnum r) :: t) end
  | EPop d =>
      if length st <=? d then None
      else let chain := rev (firstn d st) in
           match skipn d st with
           | [] => None
           | last :: t => Some ((last ++ LP :: concat chain ++ [RP]) :: t)
           end
  end.
Fixpoint w_fold (st : wstack) (h : list ev) : option wstack :=
  match h with [] => Some st | e :: t => match w_step st e with Some st' => w_fold st' t | None => None end end.
Definition w_write (st : wstack) : list char := concat (rev st).
Definition wr (h : list ev) : option (list char) := option_map w_write (w_fold [] h).
