(* Shared vocabulary of the hand-written models (T3): bonds, atoms, events, and the operations on bond kinds and
   atom kinds that the algorithms use.  The operations on finite domains are the code's own dumped tables. *)
From Coq Require Import List NArith Lia Bool Arith.
Import ListNotations.
Require Import P.Generated.Enums P.Spec.Values P.Generated.Tables.

Notation bondk := bond_kind (only parsing).
Definition bondk_eqb := bond_kind_eqb.
Definition reverse := reverse_bond_kind.
Definition is_directional := directional_bond_kind.
Definition reconcile := reconcile_bond_kind.
Notation Elided := BK_Elided (only parsing).

Notation kind := atom_kind (only parsing).
Inductive kres := KOk (k : kind) | KPanic.
(* AtomKind::invert_configuration: touches only the configuration of a bracket atom, as a function of
   (configuration, hcount) -- the dumped 58 x 11 table *)
Definition invert (k : kind) : kres :=
  match k with
  | AK_Bracket i s c h g m =>
      match invert_table c h with
      | InvSame => KOk k
      | InvTo c' => KOk (AK_Bracket i s (Some c') h g m)
      | InvPanic | InvOther => KPanic
      end
  | _ => KOk k
  end.
(* walk.rs: invert_without_hydrogen *)
Definition has_hydrogens (h : option virtual_hydrogen) : bool := match h with Some h => negb (vh_is_zero h) | None => false end.
Definition invert_noH (k : kind) : kind :=
  match k with
  | AK_Bracket i s c h g m =>
      if has_hydrogens h then k
      else match c with
           | Some Cf_TH1 => AK_Bracket i s (Some Cf_TH2) h g m
           | Some Cf_TH2 => AK_Bracket i s (Some Cf_TH1) h g m
           | _ => k end
  | _ => k
  end.

Record bond := { bk : bond_kind; tid : nat }.
Record atom := { akind : kind; bonds : list bond }.
Definition mkA (k : kind) (l : list (bond_kind * nat)) : atom :=
  {| akind := k; bonds := map (fun p => {| bk := fst p; tid := snd p |}) l |}.
(* ring-closure numbers are carried as integers; Rnum::try_from / the Rnum enum are related to them by C18 *)
Definition rnumN := N.
Definition to_rnum (n : N) : option rnumN := if (n <? 100)%N then Some n else None.

Inductive ev := ERoot (k : kind) | EExtend (b : bond_kind) (k : kind) | EJoin (b : bond_kind) (r : rnumN) | EPop (n : nat).

Fixpoint set_nth {A} (l : list A) (n : nat) (x : A) : list A :=
  match l, n with [], _ => [] | _ :: t, 0 => x :: t | h :: t, S n => h :: set_nth t n x end.

Definition bond_eqb (a b : bond) := bondk_eqb (bk a) (bk b) && Nat.eqb (tid a) (tid b).
Fixpoint list_eqb {T} (eq : T -> T -> bool) (l1 l2 : list T) :=
  match l1, l2 with [], [] => true | a :: t1, b :: t2 => eq a b && list_eqb eq t1 t2 | _, _ => false end.
Definition atom_eqb (a b : atom) := kind_eqb (akind a) (akind b) && list_eqb bond_eqb (bonds a) (bonds b).
Definition ev_eqb (a b : ev) :=
  match a, b with
  | ERoot k, ERoot k' => kind_eqb k k'
  | EExtend x k, EExtend y k' => bondk_eqb x y && kind_eqb k k'
  | EJoin x r, EJoin y r' => bondk_eqb x y && N.eqb r r'
  | EPop n, EPop m => Nat.eqb n m
  | _, _ => false end.
