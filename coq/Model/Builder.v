(* Model of src/graph/builder.rs (after the F11 repair). *)
From Coq Require Import List NArith Lia Bool Arith.
Import ListNotations.
Require Import P.Generated.Enums P.Spec.Values P.Model.Base.

Inductive target := TId (n : nat) | TRnum (rid sid : nat) (r : rnumN).
Record edge := { ek : bond_kind; etgt : target }.
Record node := { nkind : kind; edges : list edge }.
Inductive berr := BJoin (a b : nat) | BRnum (rid : nat).
Record bstate := { bstack : list nat; graph : list node; opens : list (rnumN * nat); errors : list berr; rid : nat }.
Definition b0 := {| bstack := []; graph := []; opens := []; errors := []; rid := 0 |}.

Fixpoint olookup (o : list (rnumN * nat)) (r : rnumN) : option nat :=
  match o with [] => None | (q, n) :: t => if N.eqb q r then Some n else olookup t r end.
Fixpoint oremove (o : list (rnumN * nat)) (r : rnumN) :=
  match o with [] => [] | (q, n) :: t => if N.eqb q r then t else (q, n) :: oremove t r end.

Definition add_edge (g : list node) (i : nat) (e : edge) : list node :=
  match nth_error g i with
  | Some nd => set_nth g i {| nkind := nkind nd; edges := edges nd ++ [e] |}
  | None => g end.
(* replace the first placeholder edge for rnum r *)
Fixpoint replace_ph (es : list edge) (r : rnumN) (f : edge -> edge) : option (list edge) :=
  match es with
  | [] => None
  | e :: t => match etgt e with
              | TRnum _ _ r' => if N.eqb r' r then Some (f e :: t) else option_map (cons e) (replace_ph t r f)
              | TId _ => option_map (cons e) (replace_ph t r f) end
  end.
Fixpoint find_ph (es : list edge) (r : rnumN) : option edge :=
  match es with
  | [] => None
  | e :: t => match etgt e with
              | TRnum _ _ r' => if N.eqb r' r then Some e else find_ph t r
              | TId _ => find_ph t r end
  end.
Definition targets_id (es : list edge) (t : nat) : bool :=
  existsb (fun e => match etgt e with TId n => Nat.eqb n t | TRnum _ _ _ => false end) es.

(* None = panic (expect / index out of bounds / unimplemented) *)
Definition bstep (s : bstate) (e : ev) : option bstate :=
  match e with
  | ERoot k => Some {| bstack := length (graph s) :: bstack s; graph := graph s ++ [{| nkind := k; edges := [] |}];
                       opens := opens s; errors := errors s; rid := rid s |}
  | EExtend b k =>
      match bstack s with
      | [] => None
      | sid :: _ =>
          match invert k with
          | KPanic => None
          | KOk k' =>
              let t := length (graph s) in
              match nth_error (graph s) sid with
              | None => None
              | Some _ =>
                  let g1 := graph s ++ [{| nkind := k'; edges := [{| ek := reverse b; etgt := TId sid |}] |}] in
                  Some {| bstack := t :: bstack s; graph := add_edge g1 sid {| ek := b; etgt := TId t |};
                          opens := opens s; errors := errors s; rid := rid s |}
              end
          end
      end
  | EJoin b r =>
      match olookup (opens s) r with
      | Some t =>
          match bstack s with
          | [] => None
          | sid :: _ =>
              match nth_error (graph s) sid, nth_error (graph s) t with
              | Some snd_, Some nd =>
                  let bonded := Nat.eqb sid t || targets_id (edges snd_) t in
                  match find_ph (edges nd) r with
                  | None => None
                  | Some ph =>
                      match bonded, reconcile (ek ph) b with
                      | false, Some (l, rt) =>
                          match replace_ph (edges nd) r (fun _ => {| ek := l; etgt := TId sid |}) with
                          | None => None
                          | Some es' =>
                              let g1 := set_nth (graph s) t {| nkind := nkind nd; edges := es' |} in
                              Some {| bstack := bstack s; graph := add_edge g1 sid {| ek := rt; etgt := TId t |};
                                      opens := oremove (opens s) r; errors := errors s; rid := S (rid s) |}
                          end
                      | _, _ => Some {| bstack := bstack s; graph := graph s; opens := oremove (opens s) r;
                                        errors := errors s ++ [BJoin sid t]; rid := S (rid s) |}
                      end
                  end
              | _, _ => None
              end
          end
      | None =>
          match bstack s with
          | [] => None
          | sid :: _ =>
              match nth_error (graph s) sid with
              | None => None
              | Some _ => Some {| bstack := bstack s; graph := add_edge (graph s) sid {| ek := b; etgt := TRnum (rid s) sid r |};
                                  opens := (r, sid) :: opens s; errors := errors s; rid := S (rid s) |}
              end
          end
      end
  | EPop d => Some {| bstack := skipn d (bstack s); graph := graph s; opens := opens s; errors := errors s; rid := rid s |}
  end.

Fixpoint bfold (s : bstate) (h : list ev) : option bstate :=
  match h with [] => Some s | e :: t => match bstep s e with None => None | Some s' => bfold s' t end end.

Inductive bres := BOk (g : list atom) | BErr (e : berr) | BPanic.
Inductive blres := BLOk (l : list bond) | BLErr (rid : nat).
Fixpoint conv_edges (es : list edge) : blres :=
  match es with
  | [] => BLOk []
  | e :: t => match etgt e with
              | TId n => match conv_edges t with BLOk l => BLOk ({| bk := ek e; tid := n |} :: l) | x => x end
              | TRnum rid _ _ => BLErr rid end
  end.
Fixpoint conv_nodes (ns : list node) : bres :=
  match ns with
  | [] => BOk []
  | n :: t => match conv_edges (edges n) with
              | BLErr rid => BErr (BRnum rid)
              | BLOk l => match conv_nodes t with BOk g => BOk ({| akind := nkind n; bonds := l |} :: g) | x => x end
              end
  end.
Definition build (s : bstate) : bres :=
  match errors s with e :: _ => BErr e | [] => conv_nodes (graph s) end.
Definition bld (h : list ev) : bres := match bfold b0 h with None => BPanic | Some s => build s end.
