(* Model of src/graph/atom.rs (after the F9 repair) and of AtomKind::targets / debracket (after F16). *)
From Coq Require Import List NArith Lia Bool Arith.
Import ListNotations.
Require Import P.Generated.Enums P.Spec.Values P.Generated.Tables P.Model.Base.
Local Open Scope N_scope.

Definition targets (k : kind) : list N :=
  match k with
  | AK_Star => []
  | AK_Aliphatic a => targets_aliphatic a
  | AK_Aromatic a => targets_aromatic a
  | AK_Bracket _ s _ _ g _ => targets_bracket s g
  end.
Definition hcount_value (k : kind) : N :=
  match k with AK_Bracket _ _ _ (Some h) _ _ => u8_of_vh h | _ => 0 end.
Definition order_sum (bs : list bond) : N := fold_left (fun sum b => sum + order_bond_kind (bk b)) bs 0.
(* the fold starts from the hydrogen count; the accumulator is usize, modelled unbounded *)
Definition valence (a : atom) : N := fold_left (fun sum b => sum + order_bond_kind (bk b)) (bonds a) (hcount_value (akind a)).
Definition subvalence (a : atom) : N :=
  match find (fun t => valence a <=? t) (targets (akind a)) with
  | Some t => t - valence a
  | None => 0
  end.
Definition suppressed_hydrogens (a : atom) : N :=
  match akind a with
  | AK_Star => 0
  | AK_Aromatic _ => let sv := subvalence a in if 1 <? sv then sv - 1 else 0
  | AK_Aliphatic _ => subvalence a
  | AK_Bracket _ _ _ h _ _ => match h with Some h => u8_of_vh h | None => 0 end
  end.
Definition is_aromatic (k : kind) : bool :=
  match k with AK_Star => false | AK_Aliphatic _ => false | AK_Aromatic _ => true | AK_Bracket _ s _ _ _ _ => is_aromatic_symbol s end.

(* AtomKind::debracket: [None] = panic (checked_add overflow) *)
Definition any_field (i : option N) (c : option configuration) (g : option charge) (m : option N) : bool :=
  match i, c, g, m with None, None, None, None => false | _, _, _, _ => true end.
Definition debracket (k : kind) (sum : N) : option kind :=
  match k with
  | AK_Bracket i s c h g m =>
      if any_field i c g m then Some k
      else match s with
           | BS_Star => match h with Some h => if vh_is_zero h then Some AK_Star else Some k | None => Some AK_Star end
           | BS_Aromatic ba =>
               let hc := match h with Some h => u8_of_vh h | None => 0 end in
               if 255 <? sum + hc then None
               else let allowance := if hc =? 0 then 0 else 1 in
                    match aromatic_of_bracket_aromatic ba with
                    | None => Some k
                    | Some ar => match find (fun t => sum <=? t) (targets_aromatic ar) with
                                 | Some t => if sum + hc =? t - allowance then Some (AK_Aromatic ar) else Some k
                                 | None => Some k end
                    end
           | BS_Element e =>
               let hc := match h with Some h => u8_of_vh h | None => 0 end in
               if 255 <? sum + hc then None
               else match aliphatic_of_element e with
                    | None => Some k
                    | Some al => match find (fun t => sum <=? t) (targets_aliphatic al) with
                                 | Some t => if t =? sum + hc then Some (AK_Aliphatic al) else Some k
                                 | None => Some k end
                    end
           end
  | _ => Some k
  end.
