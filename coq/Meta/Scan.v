From Coq Require Import List NArith Lia Bool Arith.
Import ListNotations.

Definition char := N.
Inductive pat := PLit (c : char) | PRange (lo hi : char).
Definition pmatch (p : pat) (c : char) : bool :=
  match p with PLit x => N.eqb x c | PRange lo hi => N.leb lo c && N.leb c hi end.

Section Tree.
Variable V : Type.
Inductive outcome := OVal (v : V) | ONone | OErrEol | OErrChar (i : nat) | OPanic (site : nat).
Inductive tree := Leaf (o : outcome) | Pop (t : tree) | IfEof (te tc : tree) | Test (p : pat) (ty tn : tree).
Record res := { r_out : outcome; r_pos : nat; r_peek : nat }.

(* pos: characters consumed so far; pk: 1 + highest inspected index (0 = nothing inspected) *)
Fixpoint run (t : tree) (s : list char) (pos pk : nat) : res :=
  match t with
  | Leaf o => {| r_out := o; r_pos := pos; r_peek := pk |}
  | Pop t' => match s with
              | [] => run t' s pos (Nat.max pk (S pos))
              | _ :: s' => run t' s' (S pos) (Nat.max pk (S pos)) end
  | IfEof te tc => match s with
                   | [] => run te s pos (Nat.max pk (S pos))
                   | _ => run tc s pos (Nat.max pk (S pos)) end
  | Test p ty tn => match s with
                    | [] => run tn s pos (Nat.max pk (S pos))
                    | c :: _ => if pmatch p c then run ty s pos (Nat.max pk (S pos))
                                else run tn s pos (Nat.max pk (S pos)) end
  end.

Fixpoint pats (t : tree) : list pat :=
  match t with Leaf _ => [] | Pop t => pats t | IfEof a b => pats a ++ pats b | Test p a b => p :: pats a ++ pats b end.
Fixpoint depth (t : tree) : nat :=
  match t with Leaf _ => 0 | Pop t => S (depth t) | IfEof a b => Nat.max (depth a) (depth b) | Test _ a b => Nat.max (depth a) (depth b) end.
End Tree.
Arguments Leaf {V}. Arguments Pop {V}. Arguments IfEof {V}. Arguments Test {V}.
Arguments run {V}. Arguments r_out {V}. Arguments r_pos {V}. Arguments r_peek {V}.
Arguments pats {V}. Arguments depth {V}.
Arguments OVal {V}. Arguments ONone {V}. Arguments OErrEol {V}. Arguments OErrChar {V}. Arguments OPanic {V}.
