From Coq Require Import List NArith Lia Bool Arith.
Import ListNotations.
Require Import P.Meta.Scan.

Section M.
Variable V : Type.
Notation tree := (tree V).

Definition agree (n : nat) (s1 s2 : list char) := forall i, (i < n)%nat -> nth_error s1 i = nth_error s2 i.
Lemma agree_cons n c s1 s2 : agree (S n) (c :: s1) s2 -> exists s2', s2 = c :: s2' /\ agree n s1 s2'.
Proof.
  intros H. destruct s2 as [|c2 s2'].
  - specialize (H 0%nat ltac:(lia)). discriminate.
  - pose proof (H 0%nat ltac:(lia)) as H0. simpl in H0. inversion H0; subst.
    exists s2'. split; [reflexivity|]. intros i Hi. apply (H (S i)). lia.
Qed.
Lemma agree_nil n s2 : agree (S n) [] s2 -> s2 = [].
Proof. intros H. destruct s2; [reflexivity|]. specialize (H 0%nat ltac:(lia)). discriminate. Qed.
Lemma agree_weaken n m s1 s2 : (m <= n)%nat -> agree n s1 s2 -> agree m s1 s2.
Proof. intros Hle H i Hi. apply H. lia. Qed.

Lemma run_mono (t : tree) : forall s pos pk,
  (pk <= r_peek (run t s pos pk))%nat /\ (pos <= r_pos (run t s pos pk))%nat.
Proof.
  induction t as [o | t IH | te IHe tc IHc | p ty IHy tn IHn]; intros s pos pk; cbn [run].
  - simpl. lia.
  - destruct s; [specialize (IH [] pos (Nat.max pk (S pos))) | specialize (IH s (S pos) (Nat.max pk (S pos)))]; lia.
  - destruct s; [specialize (IHe [] pos (Nat.max pk (S pos))) | specialize (IHc (c :: s) pos (Nat.max pk (S pos)))]; lia.
  - destruct s as [|c s]; [specialize (IHn [] pos (Nat.max pk (S pos))); lia|].
    destruct (pmatch p c); [specialize (IHy (c :: s) pos (Nat.max pk (S pos))) | specialize (IHn (c :: s) pos (Nat.max pk (S pos)))]; lia.
Qed.

(* Locality *)
Lemma run_local (t : tree) : forall s1 s2 pos pk,
  agree (r_peek (run t s1 pos pk) - pos) s1 s2 -> run t s2 pos pk = run t s1 pos pk.
Proof.
  induction t as [o | t IH | te IHe tc IHc | p ty IHy tn IHn]; intros s1 s2 pos pk; cbn [run].
  - reflexivity.
  - destruct s1 as [|c s1]; intros Ha.
    + pose proof (run_mono t [] pos (Nat.max pk (S pos))).
      assert (s2 = []) as -> by (eapply (agree_nil (r_peek (run t [] pos (Nat.max pk (S pos))) - pos - 1)); eapply agree_weaken; [|exact Ha]; lia).
      reflexivity.
    + pose proof (run_mono t s1 (S pos) (Nat.max pk (S pos))).
      destruct (agree_cons (r_peek (run t s1 (S pos) (Nat.max pk (S pos))) - pos - 1) c s1 s2) as [s2' [-> Ha']].
      { eapply agree_weaken; [|exact Ha]. lia. }
      apply IH. eapply agree_weaken; [|exact Ha']. lia.
  - destruct s1 as [|c s1]; intros Ha.
    + pose proof (run_mono te [] pos (Nat.max pk (S pos))).
      assert (s2 = []) as -> by (eapply (agree_nil (r_peek (run te [] pos (Nat.max pk (S pos))) - pos - 1)); eapply agree_weaken; [|exact Ha]; lia).
      reflexivity.
    + pose proof (run_mono tc (c :: s1) pos (Nat.max pk (S pos))).
      destruct (agree_cons (r_peek (run tc (c :: s1) pos (Nat.max pk (S pos))) - pos - 1) c s1 s2) as [s2' [-> Ha']].
      { eapply agree_weaken; [|exact Ha]. lia. }
      apply IHc. exact Ha.
  - destruct s1 as [|c s1]; intros Ha.
    + pose proof (run_mono tn [] pos (Nat.max pk (S pos))).
      assert (s2 = []) as -> by (eapply (agree_nil (r_peek (run tn [] pos (Nat.max pk (S pos))) - pos - 1)); eapply agree_weaken; [|exact Ha]; lia).
      reflexivity.
    + destruct (pmatch p c) eqn:Hp.
      * pose proof (run_mono ty (c :: s1) pos (Nat.max pk (S pos))).
        destruct (agree_cons (r_peek (run ty (c :: s1) pos (Nat.max pk (S pos))) - pos - 1) c s1 s2) as [s2' [-> Ha']].
        { eapply agree_weaken; [|exact Ha]. lia. }
        rewrite Hp. apply IHy. exact Ha.
      * pose proof (run_mono tn (c :: s1) pos (Nat.max pk (S pos))).
        destruct (agree_cons (r_peek (run tn (c :: s1) pos (Nat.max pk (S pos))) - pos - 1) c s1 s2) as [s2' [-> Ha']].
        { eapply agree_weaken; [|exact Ha]. lia. }
        rewrite Hp. apply IHn. exact Ha.
Qed.

(* Normalisation: characters that no pattern of the tree matches are interchangeable *)
Variable A : list char.          (* alphabet *)
Variable w : char.               (* representative of "other" *)
Definition inA (c : char) := existsb (N.eqb c) A.
Definition norm (c : char) := if inA c then c else w.
Definition pat_ok (p : pat) := forall c, inA c = false -> pmatch p c = false.
Hypothesis w_out : inA w = false.

Lemma pmatch_norm p c : pat_ok p -> pmatch p (norm c) = pmatch p c.
Proof.
  intros Hp. unfold norm. destruct (inA c) eqn:E; [reflexivity|].
  rewrite (Hp c E), (Hp w w_out). reflexivity.
Qed.

Lemma run_norm (t : tree) : Forall pat_ok (pats t) -> forall s pos pk, run t (map norm s) pos pk = run t s pos pk.
Proof.
  induction t as [o | t IH | te IHe tc IHc | p ty IHy tn IHn]; intros Hok s pos pk; cbn [run pats] in *.
  - reflexivity.
  - destruct s as [|c s]; cbn [map]; [apply (IH Hok []) | apply (IH Hok s)].
  - apply Forall_app in Hok as [H1 H2]. destruct s; cbn [map]; [apply (IHe H1 [])| apply (IHc H2 (c :: s))].
  - inversion Hok as [|? ? Hp Hrest]; subst. apply Forall_app in Hrest as [H1 H2].
    destruct s as [|c s]; cbn [map]; [apply (IHn H2 [])|].
    rewrite (pmatch_norm p c Hp). destruct (pmatch p c); [apply (IHy H1 (c :: s)) | apply (IHn H2 (c :: s))].
Qed.

(* run never inspects more than depth+1 positions beyond pos *)
Lemma run_peek_bound (t : tree) : forall s pos pk,
  (r_peek (run t s pos pk) <= Nat.max pk (pos + depth t + 1))%nat.
Proof.
  induction t as [o | t IH | te IHe tc IHc | p ty IHy tn IHn]; intros s pos pk; cbn [run depth].
  - simpl. lia.
  - destruct s; [specialize (IH [] pos (Nat.max pk (S pos))) | specialize (IH s (S pos) (Nat.max pk (S pos)))]; lia.
  - destruct s; [specialize (IHe [] pos (Nat.max pk (S pos))) | specialize (IHc (c :: s) pos (Nat.max pk (S pos)))]; lia.
  - destruct s as [|c s]; [specialize (IHn [] pos (Nat.max pk (S pos))); lia|].
    destruct (pmatch p c); [specialize (IHy (c :: s) pos (Nat.max pk (S pos))) | specialize (IHn (c :: s) pos (Nat.max pk (S pos)))]; lia.
Qed.

(* The covering family for a finite set of trees: explore prefixes while some run looks past their end. *)
Definition looks_past (ts : list tree) (p : list char) : bool :=
  existsb (fun t => (length p <? r_peek (run t p 0 0))%nat) ts.
Definition maxdepth (ts : list tree) := fold_right (fun t m => Nat.max (depth t) m) 0%nat ts.

Fixpoint fam (ts : list tree) (fuel : nat) (p : list char) : list (list char) :=
  match fuel with
  | 0 => [p]
  | S f => if looks_past ts p then p :: flat_map (fun c => fam ts f (p ++ [c])) (A ++ [w]) else [p]
  end.

Lemma norm_in c : In (norm c) (A ++ [w]).
Proof.
  unfold norm. destruct (inA c) eqn:E.
  - apply in_or_app. left. unfold inA in E. apply existsb_exists in E as [x [Hx Hc]].
    apply N.eqb_eq in Hc. subst. exact Hx.
  - apply in_or_app. right. left. reflexivity.
Qed.

Lemma agree_prefix (p q : list char) n : (n <= length p)%nat -> agree n p (p ++ q).
Proof. intros Hn i Hi. symmetry. apply nth_error_app1. lia. Qed.

Lemma maxdepth_ge ts t : In t ts -> (depth t <= maxdepth ts)%nat.
Proof. induction ts as [|a ts IH]; simpl; [tauto|]. intros [->|H]; [lia|specialize (IH H); lia]. Qed.

Lemma fam_cover_aux (ts : list tree) : forall fuel p q,
  (maxdepth ts + 1 <= fuel + length p)%nat ->
  exists r, In r (fam ts fuel p) /\ forall t, In t ts -> run t r 0 0 = run t (p ++ map norm q) 0 0.
Proof.
  induction fuel as [|f IH]; intros p q Hd; cbn [fam].
  - exists p. split; [left; reflexivity|]. intros t Ht.
    symmetry. apply run_local.
    pose proof (run_peek_bound t p 0 0). pose proof (maxdepth_ge ts t Ht). apply agree_prefix. lia.
  - destruct (looks_past ts p) eqn:Hl.
    + destruct q as [|c q].
      * exists p. split; [left; reflexivity|]. intros t _. cbn [map]. rewrite app_nil_r. reflexivity.
      * destruct (IH (p ++ [norm c]) q) as [r [Hin Hr]].
        { rewrite app_length. simpl. lia. }
        exists r. split.
        -- right. apply in_flat_map. exists (norm c). split; [apply norm_in | exact Hin].
        -- intros t Ht. rewrite (Hr t Ht). rewrite <- app_assoc. reflexivity.
    + exists p. split; [left; reflexivity|]. intros t Ht. symmetry. apply run_local. apply agree_prefix.
      unfold looks_past in Hl.
      assert (Hn : (length p <? r_peek (run t p 0 0))%nat = false).
      { destruct (length p <? r_peek (run t p 0 0))%nat eqn:E; [|reflexivity].
        assert (existsb (fun t => (length p <? r_peek (run t p 0 0))%nat) ts = true) by (apply existsb_exists; exists t; auto).
        congruence. }
      apply Nat.ltb_ge in Hn. lia.
Qed.

Theorem fam_cover (ts : list tree) : Forall (fun t => Forall pat_ok (pats t)) ts -> forall s,
  exists r, In r (fam ts (maxdepth ts + 1) []) /\ forall t, In t ts -> run t s 0 0 = run t r 0 0.
Proof.
  intros Hok s. destruct (fam_cover_aux ts (maxdepth ts + 1) [] s ltac:(simpl; lia)) as [r [Hin Hr]].
  exists r. split; [exact Hin|]. intros t Ht. rewrite (Hr t Ht). cbn [app]. symmetry. apply run_norm.
  rewrite Forall_forall in Hok. apply Hok. exact Ht.
Qed.

(* Reduction principles used by every token-level theorem *)
Corollary forall_by_family (t : tree) (Q : res V -> bool) :
  Forall pat_ok (pats t) ->
  forallb (fun r => Q (run t r 0 0)) (fam [t] (depth t + 1) []) = true ->
  forall s, Q (run t s 0 0) = true.
Proof.
  intros Hok Hall s.
  assert (Hm : maxdepth [t] = depth t) by (simpl; lia).
  destruct (fam_cover [t] ltac:(constructor; [exact Hok|constructor]) s) as [r [Hin Hr]].
  rewrite Hm in Hin. rewrite (Hr t ltac:(left; reflexivity)). rewrite forallb_forall in Hall. apply Hall. exact Hin.
Qed.

Corollary rel_by_family (t1 t2 : tree) (Q : res V -> res V -> bool) :
  Forall pat_ok (pats t1) -> Forall pat_ok (pats t2) ->
  forallb (fun r => Q (run t1 r 0 0) (run t2 r 0 0)) (fam [t1; t2] (maxdepth [t1; t2] + 1) []) = true ->
  forall s, Q (run t1 s 0 0) (run t2 s 0 0) = true.
Proof.
  intros H1 H2 Hall s.
  destruct (fam_cover [t1; t2] ltac:(repeat constructor; assumption) s) as [r [Hin Hr]].
  rewrite (Hr t1 ltac:(left; reflexivity)), (Hr t2 ltac:(right; left; reflexivity)).
  rewrite forallb_forall in Hall. apply Hall. exact Hin.
Qed.
End M.

