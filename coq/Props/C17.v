(* C17 — hydrogen counts and subvalence follow the valence model at any degree. Statements only. *)
From Coq Require Import List String NArith Bool.
Import ListNotations.
Require Import P.Generated.Enums P.Spec.Values P.Generated.Tables P.Spec.Valence P.Model.Base P.Model.Atom P.Checks.Valence_defs P.Proofs.Valence.
Local Open Scope N_scope.

(* any kind, any bond list of any length: the count is the specification's, computed over unbounded integers *)
Theorem C17_hydrogens_follow_valence_model : forall a : atom, suppressed_hydrogens a = hydrogens_spec (akind a) (order_sum (bonds a)).
Proof. exact hydrogens_follow_spec. Qed.
Theorem C17_subvalence_from_published_targets : forall a : atom,
  subvalence a = distance (targets (akind a)) (hcount_of (match akind a with AK_Bracket _ _ _ h _ _ => h | _ => None end) + order_sum (bonds a)).
Proof. exact subvalence_follows_targets. Qed.
Theorem C17_standard_valences :
  (forall a, targets_aliphatic a = std_valences (name_aliphatic a)) /\ (forall a, targets_aromatic a = std_valences (name_aromatic a)).
Proof. exact (conj targets_aliphatic_std targets_aromatic_std). Qed.
Theorem C17_charged_atoms_are_isoelectronic : forall s c, targets_bracket s c <> [] -> iso_targets s c = Some (targets_bracket s c).
Proof. exact targets_isoelectronic. Qed.
(* no wrap-around: the bond-order sum is at least the degree, for any number of bonds *)
Theorem C17_no_wraparound : forall l : list bond, N.of_nat (List.length l) <= order_sum l.
Proof. exact order_sum_ge_degree. Qed.

Print Assumptions C17_hydrogens_follow_valence_model.
Print Assumptions C17_subvalence_from_published_targets.
Print Assumptions C17_standard_valences.
Print Assumptions C17_charged_atoms_are_isoelectronic.
Print Assumptions C17_no_wraparound.
