(* C04 — the reader accepts exactly the documented SMILES grammar. Statements only.
   Token level (all strings): every token production of the code behaves as the specification trie of its documented
   family (118 elements, 8 bracket aromatics, *, organic subset, 59 configuration spellings, H / H0-H9, charges -15..15
   in all three spellings, ring numbers 0-99, isotope and map 0-999 with leading zeros, 8 bond symbols).
   Driver level: everything the writer can print is accepted (C09); the reader never panics or loops (C06); the
   verdict is a function of the string alone in the model.  The full equivalence with the documented BNF over all
   strings is decided by evaluating an independent backtracking recogniser (Spec/Grammar.v) against the
   implementation's verdict; it is not yet a theorem. *)
From Coq Require Import List NArith Bool.
Require Import P.Generated.Enums P.Meta.Scan P.Spec.Values P.Spec.Reading P.Generated.Trees P.Checks.Reading_defs P.Proofs.Reading
  P.Spec.Events P.Spec.Normal P.Model.Base P.Model.Reader P.Model.Writer P.Proofs.BodyFacts P.Proofs.C09_Writer P.Proofs.C09_Final P.Proofs.ReaderSafe.

Theorem C04_tokens_are_the_documented_families :
  (forall s, same bs_eqb (run tree_symbol s 0 0) (run spec_symbol s 0 0) = true) /\
  (forall s, same org_eqb (run tree_organic s 0 0) (run spec_organic s 0 0) = true) /\
  (forall s, same configuration_eqb (run tree_configuration s 0 0) (run spec_configuration s 0 0) = true) /\
  (forall s, same charge_eqb (run tree_charge s 0 0) (run spec_charge s 0 0) = true) /\
  (forall s, same bond_kind_eqb (run tree_bond s 0 0) (run spec_bond s 0 0) = true) /\
  (forall s, same rnum_eqb (run tree_rnum s 0 0) (run spec_rnum s 0 0) = true) /\
  (forall s, same virtual_hydrogen_eqb (run tree_hcount s 0 0) (run spec_hcount s 0 0) = true) /\
  (forall s, same N.eqb (run tree_isotope s 0 0) (run spec_isotope s 0 0) = true) /\
  (forall s, same N.eqb (run tree_map s 0 0) (run spec_map s 0 0) = true).
Proof.
  exact (conj symbol_as_documented (conj organic_as_documented (conj configuration_as_documented (conj charge_as_documented
        (conj bond_as_documented (conj rnum_as_documented (conj hcount_as_documented (conj isotope_as_documented map_as_documented)))))))).
Qed.
Theorem C04_every_written_history_is_accepted : forall h, conformant_history h -> Forall okev h ->
  exists text, wr h = Some text /\ fst (rd text) = VOk.
Proof. intros h Hc Hok. destruct (C09_inverse h Hc Hok) as [t [Hw Hr]]. exists t. rewrite Hr. auto. Qed.
Theorem C04_reader_total : forall s : list N, fst (rd s) <> VPanic /\ fst (rd s) <> VFuel.
Proof. exact P.Proofs.ReaderSafe.reader_safe. Qed.

Print Assumptions C04_tokens_are_the_documented_families.
Print Assumptions C04_every_written_history_is_accepted.
Print Assumptions C04_reader_total.
