(* C04 — the reader accepts exactly the documented SMILES grammar. Statements only.
   Token level (all strings): every token production of the code behaves as the specification trie of its documented
   family (118 elements, 8 bracket aromatics, *, organic subset, 59 configuration spellings, H / H0-H9, charges -15..15
   in all three spellings, ring numbers 0-99, isotope and map 0-999 with leading zeros, 8 bond symbols).
   Driver level: everything the writer can print is accepted (C09); the reader never panics or loops (C06); the
   verdict is a function of the string alone in the model.  Whole reader, all strings: accepted iff a sentence of the declarative grammar of
   Spec/Lang.v (both directions); the backtracking recogniser of Spec/Grammar.v is still evaluated against the
   implementation's verdicts on every run. *)
From Coq Require Import List NArith Bool.
Require P.Proofs.LangFinal P.Proofs.GrammarOracleFinal P.Spec.Grammar.
Require Import P.Spec.Lang P.Model.Base P.Model.Reader.
Strategy opaque [P.Generated.Trees.tree_symbol P.Generated.Trees.tree_organic P.Generated.Trees.tree_configuration
  P.Generated.Trees.tree_charge P.Generated.Trees.tree_bond P.Generated.Trees.tree_rnum P.Generated.Trees.tree_hcount
  P.Generated.Trees.tree_isotope P.Generated.Trees.tree_map].
Require Import P.Generated.Enums P.Meta.Scan P.Spec.Values P.Spec.Reading P.Generated.Trees P.Checks.Reading_defs P.Proofs.Reading
  P.Spec.Events P.Spec.Normal P.Model.Base P.Model.Reader P.Model.Writer P.Proofs.BodyFacts P.Proofs.C09_Writer P.Proofs.C09_Final P.Proofs.ReaderSafe.

Theorem C04_tokens_are_the_documented_families :
  (forall s, same bs_eqb (run tree_symbol s 0 0) (run spec_symbol s 0 0) = true) /\
  (forall s, same org_eqb (run tree_organic s 0 0) (run spec_organic s 0 0) = true) /\
  (forall s, same configuration_eqb (run tree_configuration s 0 0) (run spec_configuration s 0 0) = true) /\
  (forall s, same charge_eqb (run tree_charge s 0 0) (run spec_charge s 0 0) = true) /\
  (forall s, same bond_kind_eqb (run tree_bond s 0 0) (run spec_bond s 0 0) = true) /\
  (forall s, same rnum_eqb (run tree_rnum s 0 0) (run spec_rnum s 0 0) = true) /\
  (forall s, same virtual_hydrogen_eqb (run tree_hcount s 0 0) (run spec_hcount s 0 0) = true) /\
  (forall s, same N.eqb (run tree_isotope s 0 0) (run spec_isotope s 0 0) = true) /\
  (forall s, same N.eqb (run tree_map s 0 0) (run spec_map s 0 0) = true).
Proof.
  exact (conj symbol_as_documented (conj organic_as_documented (conj configuration_as_documented (conj charge_as_documented
        (conj bond_as_documented (conj rnum_as_documented (conj hcount_as_documented (conj isotope_as_documented map_as_documented)))))))).
Qed.
Theorem C04_every_written_history_is_accepted : forall h, conformant_history h -> Forall okev h ->
  exists text, wr h = Some text /\ fst (rd text) = VOk.
Proof. intros h Hc Hok. destruct (C09_inverse h Hc Hok) as [t [Hw Hr]]. exists t. rewrite Hr. auto. Qed.
Theorem C04_reader_total : forall s : list N, fst (rd s) <> VPanic /\ fst (rd s) <> VFuel.
Proof. exact P.Proofs.ReaderSafe.reader_safe. Qed.

(* ---- the whole reader, every string: accepted exactly when the string is a sentence of the documented grammar.
   [Lang] / [Smiles] (Spec/Lang.v) are declarative: inductive predicates over strings with token families as sets of
   spellings, no longest-match or lookahead assumption.  Soundness is by induction over the reader; completeness is the
   LL(1) argument (no spelling of a family can be extended by a character of its follow set, FIRST sets disjoint:
   finite checks over the tables). *)
Theorem C04_accepted_strings_are_sentences : forall s h, rd s = (VOk, h) -> Lang s.
Proof. exact P.Proofs.LangFinal.C04_sound. Qed.
Theorem C04_sentences_are_accepted : forall s, Lang s -> fst (rd s) = VOk.
Proof. exact P.Proofs.LangFinal.C04_complete. Qed.
Theorem C04_accepts_exactly_the_documented_productions : forall s, fst (rd s) = VOk <-> Smiles s.
Proof. exact P.Proofs.LangFinal.C04_accepts_exactly_the_documented_productions. Qed.

(* the executable recogniser that the check evaluates on the implementation's verdicts decides exactly this language *)
Theorem C04_executable_recogniser_decides_the_language : forall s, P.Spec.Grammar.accepts_spec s = true <-> Lang s.
Proof. exact P.Proofs.GrammarOracleFinal.accepts_spec_correct. Qed.

Print Assumptions C04_tokens_are_the_documented_families.
Print Assumptions C04_every_written_history_is_accepted.
Print Assumptions C04_reader_total.
Print Assumptions C04_accepted_strings_are_sentences.
Print Assumptions C04_sentences_are_accepted.
Print Assumptions C04_accepts_exactly_the_documented_productions.
Print Assumptions C04_executable_recogniser_decides_the_language.
