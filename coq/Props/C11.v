(* C11 — traversal accepts exactly well-formed adjacency lists. Statements only.
   Success implies well-formedness; every ill-formed list is refused with an error that names a real defect; every
   well-formed list is accepted, up to the two panic classes of C06 (unimplemented inversion, 100 closures open). *)
From Coq Require Import List NArith Bool.
Require Import P.Model.Base P.Model.Walk P.Spec.Graph P.Proofs.C11 P.Proofs.C12_Final.

Theorem C11_success_implies_well_formed : forall g : list atom, fst (walk g) = WOk -> wf g = true.
Proof. exact walk_ok_wf. Qed.
Theorem C11_ill_formed_refused_with_real_defect : forall g : list atom, wf g = false ->
  exists e, fst (walk g) = WErr e /\ has_defect g (defect_of e).
Proof. exact walk_rejects_ill_formed. Qed.
Theorem C11_validation_is_well_formedness : forall g : list atom, validate g = None <-> wf g = true.
Proof. exact validate_iff_wf. Qed.
Theorem C11_well_formed_accepted : forall g : list atom, wf g = true -> safe_graph g -> fst (walk g) = WOk \/ fst (walk g) = WPanic 3.
Proof. exact wf_accepted. Qed.

Print Assumptions C11_well_formed_accepted.
Print Assumptions C11_success_implies_well_formed.
Print Assumptions C11_ill_formed_refused_with_real_defect.
Print Assumptions C11_validation_is_well_formedness.
