(* C11 — traversal accepts exactly well-formed adjacency lists. Statements only.
   Proved here: success implies well-formedness; every ill-formed list is refused with an error that names a real
   defect. The remaining direction (every well-formed list is accepted, up to the panic classes of C06) is part of
   the lock-step development (C12) and is added to this file when that lands; until then it is checked on the
   implementation's outputs only. *)
From Coq Require Import List NArith Bool.
Require Import P.Model.Base P.Model.Walk P.Spec.Graph P.Proofs.C11.

Theorem C11_success_implies_well_formed : forall g : list atom, fst (walk g) = WOk -> wf g = true.
Proof. exact walk_ok_wf. Qed.
Theorem C11_ill_formed_refused_with_real_defect : forall g : list atom, wf g = false ->
  exists e, fst (walk g) = WErr e /\ has_defect g (defect_of e).
Proof. exact walk_rejects_ill_formed. Qed.
Theorem C11_validation_is_well_formedness : forall g : list atom, validate g = None <-> wf g = true.
Proof. exact validate_iff_wf. Qed.

Print Assumptions C11_success_implies_well_formed.
Print Assumptions C11_ill_formed_refused_with_real_defect.
Print Assumptions C11_validation_is_well_formedness.
