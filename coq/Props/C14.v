(* C14 — written output is a deterministic fixed point. Statements only.
   (a) determinism: the models are functions of their argument; that the implementation is too (no dependence on hash
       seeds, threads, processes) is a runtime fact checked by a source lint (no map iteration) and by writing the
       same graphs in several processes.
   (b) normal form: at the level of event histories, writing, reading and writing again reproduces the text
       character for character (C09); at the level of graphs, the traversal of the re-built graph emits exactly
       the same history (equivariance of the walk under the renaming of C12: lock-step simulation of the two runs,
       pool equivariant under injective renaming), so the whole cycle text -> read -> build -> walk -> write
       reproduces the text. *)
From Coq Require Import List NArith Bool.
Import ListNotations.
Require Import P.Spec.Events P.Spec.Normal P.Spec.Graph P.Spec.Roundtrip P.Model.Base P.Model.Reader P.Model.Writer P.Model.Walk P.Model.Builder P.Proofs.BodyFacts P.Proofs.C09_Writer P.Proofs.C09_Final P.Proofs.C12_Final P.Proofs.WalkValues P.Proofs.WalkEquiv.
Strategy opaque [P.Generated.Trees.tree_symbol P.Generated.Trees.tree_organic P.Generated.Trees.tree_configuration
  P.Generated.Trees.tree_charge P.Generated.Trees.tree_bond P.Generated.Trees.tree_rnum P.Generated.Trees.tree_hcount
  P.Generated.Trees.tree_isotope P.Generated.Trees.tree_map].

Theorem C14_write_read_write_is_write : forall h, conformant_history h -> Forall okev h ->
  exists text h', wr h = Some text /\ rd text = (VOk, h') /\ wr h' = Some text.
Proof. exact C09_rewrite_fixed_point. Qed.
Theorem C14_written_text_ignores_shorthands : forall h, wr (map nkev h) = wr h.
Proof. exact wr_nk. Qed.
(* the graph built from a traversal's history is traversed with exactly that history again *)
Theorem C14_rebuilt_graph_is_a_fixed_point : forall g h, wf g = true -> safe_graph g -> walk g = (WOk, h) ->
  bld h = BOk (expected_roundtrip g) /\ walk (expected_roundtrip g) = (WOk, h).
Proof. exact rebuilt_graph_is_fixed_point. Qed.
(* the whole cycle: the written text, read, built, traversed and written again, is the same text *)
Theorem C14_written_text_is_a_fixed_point : forall g h, wf g = true -> safe_graph g -> okg g -> g <> [] -> walk g = (WOk, h) ->
  exists text hr gr h2,
    wr h = Some text /\ rd text = (VOk, hr) /\ bld hr = BOk gr /\ walk gr = (WOk, h2) /\ wr h2 = Some text.
Proof. exact written_text_is_fixed_point. Qed.
Print Assumptions C14_rebuilt_graph_is_a_fixed_point.
Print Assumptions C14_written_text_is_a_fixed_point.
Print Assumptions C14_write_read_write_is_write.
Print Assumptions C14_written_text_ignores_shorthands.
