(* C14 — written output is a deterministic fixed point. Statements only.
   (a) determinism: the models are functions of their argument; that the implementation is too (no dependence on hash
       seeds, threads, processes) is a runtime fact checked by a source lint (no map iteration) and by writing the
       same graphs in several processes.
   (b) normal form: at the level of event histories, writing, reading and writing again reproduces the text
       character for character (C09).  That the traversal of the re-built graph emits the same history (the
       equivariance of the walk under the renaming of C12) is decided on the implementation's outputs
       (C14.written_text_is_fixed_point), not yet by a theorem. *)
From Coq Require Import List NArith Bool.
Require Import P.Spec.Events P.Spec.Normal P.Model.Base P.Model.Reader P.Model.Writer P.Proofs.BodyFacts P.Proofs.C09_Writer P.Proofs.C09_Final.

Theorem C14_write_read_write_is_write : forall h, conformant_history h -> Forall okev h ->
  exists text h', wr h = Some text /\ rd text = (VOk, h') /\ wr h' = Some text.
Proof. exact C09_rewrite_fixed_point. Qed.
Theorem C14_written_text_ignores_shorthands : forall h, wr (map nkev h) = wr h.
Proof. exact wr_nk. Qed.
Print Assumptions C14_write_read_write_is_write.
Print Assumptions C14_written_text_ignores_shorthands.
