From Coq Require Import List String Ascii ZArith NArith Bool Arith.
Import ListNotations.
Require Import P.Generated.Enums P.Meta.Scan P.Meta.ScanMeta P.Spec.Values P.Spec.Spelling P.Spec.Reading P.Generated.Trees.
Local Open Scope string_scope.

Definition show (l : list char) : string := string_of_list_ascii (map ascii_of_N l).
Definition out_tag {V} (o : outcome V) : string :=
  match o with OVal _ => "val" | ONone => "none" | OErrEol => "eol" | OErrChar _ => "errchar" | OPanic _ => "panic" end.
Definition out_pos {V} (o : outcome V) : nat := match o with OErrChar i => i | _ => 0 end.

Section Cmp.
Variable V : Type.
Variable veqb : V -> V -> bool.
Definition out_eqb (a b : outcome V) : bool :=
  match a, b with OVal x, OVal y => veqb x y | ONone, ONone => true | OErrEol, OErrEol => true
  | OErrChar i, OErrChar j => Nat.eqb i j | _, _ => false end.
(* the cursor after an error is not observable through read(); only the reported index is *)
Definition is_err (o : outcome V) := match o with OErrEol | OErrChar _ => true | _ => false end.
Definition same (r1 r2 : res V) := out_eqb (r_out r1) (r_out r2) && (is_err (r_out r1) || Nat.eqb (r_pos r1) (r_pos r2)).
Definition family (code spec : tree V) := fam V alphabet omega [code; spec] (maxdepth V [code; spec] + 1) [].
Definition disagreements (code spec : tree V) :=
  (fun l => (List.length l, firstn 4 l)) (map (fun r => (show r, out_tag (r_out (run code r 0 0)), out_pos (r_out (run code r 0 0)), r_pos (run code r 0 0),
                         out_tag (r_out (run spec r 0 0)), out_pos (r_out (run spec r 0 0)), r_pos (run spec r 0 0)))
      (filter (fun r => negb (same (run code r 0 0) (run spec r 0 0))) (family code spec))).
Definition panics (code : tree V) := filter (fun r => match r_out (run code r 0 0) with OPanic _ => true | _ => false end) (fam V alphabet omega [code] (depth code + 1) []).
End Cmp.

Definition bs_eqb (a b : bracket_symbol) := match a, b with BS_Star, BS_Star => true | BS_Element x, BS_Element y => element_eqb x y
  | BS_Aromatic x, BS_Aromatic y => bracket_aromatic_eqb x y | _, _ => false end.
Definition org_eqb (a b : organic) := match a, b with Org_Aliphatic x, Org_Aliphatic y => aliphatic_eqb x y
  | Org_Aromatic x, Org_Aromatic y => aromatic_eqb x y | Org_Other, Org_Other => true | _, _ => false end.
Definition elided_out : option (outcome bond_kind) := match bk_elided with Some k => Some (OVal k) | None => None end.

Time Eval vm_compute in ("RESULT symbol", List.length (family _ tree_symbol (trie_of None symbol_table)), disagreements _ bs_eqb tree_symbol (trie_of None symbol_table)).
Time Eval vm_compute in ("RESULT organic", disagreements _ org_eqb tree_organic (trie_of (Some ONone) organic_table)).
Time Eval vm_compute in ("RESULT configuration", List.length (family _ tree_configuration (trie_of (Some ONone) configuration_table)), disagreements _ configuration_eqb tree_configuration (trie_of (Some ONone) configuration_table)).
Time Eval vm_compute in ("RESULT charge", disagreements _ charge_eqb tree_charge (trie_of (Some ONone) charge_table)).
Time Eval vm_compute in ("RESULT bond", disagreements _ bond_kind_eqb tree_bond (trie_of elided_out bond_table)).
Time Eval vm_compute in ("RESULT rnum", disagreements _ rnum_eqb tree_rnum (trie_of (Some ONone) rnum_table)).
Time Eval vm_compute in ("RESULT hcount", disagreements _ virtual_hydrogen_eqb tree_hcount (trie_of (Some ONone) hcount_table)).
Time Eval vm_compute in ("RESULT isotope", List.length (family _ tree_isotope (trie_of (Some ONone) isotope_table)), disagreements _ N.eqb tree_isotope (trie_of (Some ONone) isotope_table)).
Time Eval vm_compute in ("RESULT map", disagreements _ N.eqb tree_map (trie_of (Some ONone) map_table)).
Time Eval vm_compute in ("RESULT panics", List.length (panics _ tree_symbol ++ panics _ tree_organic ++ panics _ tree_configuration ++ panics _ tree_charge ++ panics _ tree_rnum ++ panics _ tree_hcount)%list).
