(* C02 — reading builds exactly the graph the string denotes. Statements only.
   [denote] (Spec/Denote.v) is the independent two-pass interpretation of the syntax: atoms numbered in order of
   appearance with their slots in written order (preceding atom, ring tokens, branches / chain successor); ring tokens
   paired with the nearest preceding open token of the same number; kinds of the two ends resolved (elided side takes
   the other side's kind, directional reversed); a dot gives no slot.  [flat0 bd] is the event history of the syntax. *)
From Coq Require Import List NArith Bool.
Import ListNotations.
Require Import P.Spec.Values P.Spec.Known P.Model.Base P.Model.Builder P.Proofs.C09_Inverse P.Spec.Denote P.Proofs.DenoteSym P.Proofs.DenoteFinal P.Model.Reader P.Proofs.C02_Final.

(* for every syntax tree (any nesting, dots in branches, re-used numbers, several digits per atom, any kinds on the two
   ends of a closure) outside C06's known class: the builder's result IS the denotation -- the same graph, or the same
   classified error *)
Theorem C02_builder_is_denotation : forall k0 bd, nopanic bd ->
  match bld (ERoot k0 :: flat0 bd), denote k0 bd with
  | BOk g, DOk g' => g = g'
  | BErr (Builder.BJoin x y), DJoin x' y' => x = x' /\ y = y'
  | BErr (BRnum rid), DUnmatched occs => In rid occs
  | _, _ => False end.
Proof. exact builder_is_denotation. Qed.
(* one atom per atom token, numbered in order of appearance, carrying the written attributes (a non-root tetrahedral
   centre with a virtual hydrogen is adjusted, see C03) *)
Theorem C02_atoms_are_the_atom_tokens : forall k0 bd g, nopanic bd -> bld (ERoot k0 :: flat0 bd) = BOk g ->
  map akind g = k0 :: map (fun p => Denote.adj (fst p) (snd p)) (atoms_of bd) /\ length g = 1 + length (atoms_of bd).
Proof. intros k0 bd g Hn Hb. exact (built_atoms_are_the_atom_tokens k0 bd g Hn Hb). Qed.
(* for every accepted string: its event history is the flattening of the syntax tree [syntax_of] computes, and the
   builder's result is the denotation of that tree *)
Theorem C02_reading_builds_the_denotation : forall s h, rd s = (VOk, h) ->
  (forall b k, In (EExtend b k) h -> known_invert_panic k = false) ->
  exists k0 bd, syntax_of h = Some (k0, bd) /\ h = ERoot k0 :: flat0 bd /\
    match bld h, denote k0 bd with
    | BOk g, DOk g' => g = g'
    | BErr (Builder.BJoin x y), DJoin x' y' => x = x' /\ y = y'
    | BErr (BRnum rid), DUnmatched occs => In rid occs
    | _, _ => False end.
Proof. exact reading_builds_the_denotation. Qed.

Print Assumptions C02_reading_builds_the_denotation.
Print Assumptions C02_builder_is_denotation.
Print Assumptions C02_atoms_are_the_atom_tokens.
