(* End to end — the individual properties composed along the pipeline
     string --rd--> events --bld--> graph --walk--> events --wr--> string.     Statements only.
   Vocabulary: okev (Proofs/C09_Final.v): isotope and map below 1000, ring numbers below 100;  nkev / nk_atom: the
   documented reading shorthands (Spec/Normal.v);  safe_graph: atom kinds outside the known panic class of C06;
   expected_roundtrip (Spec/Roundtrip.v): the specification's round-trip graph;  WPanic 3: the documented limit of 100
   simultaneously open ring closures. *)
From Coq Require Import List NArith Bool Permutation.
Import ListNotations.
Require Import P.Spec.Values P.Spec.Normal P.Spec.Events P.Spec.Graph P.Spec.Roundtrip P.Model.Base P.Model.Reader P.Model.Writer P.Model.Walk P.Model.Builder
  P.Proofs.D1 P.Proofs.BodyFacts P.Proofs.C09_Writer P.Proofs.C09_Final P.Proofs.C12_Final P.Proofs.C01 P.Proofs.BuilderWf P.Proofs.BuilderMore P.Proofs.WalkValues
  P.Proofs.EndToEnd.
Strategy opaque [P.Generated.Trees.tree_symbol P.Generated.Trees.tree_organic P.Generated.Trees.tree_configuration
  P.Generated.Trees.tree_charge P.Generated.Trees.tree_bond P.Generated.Trees.tree_rnum P.Generated.Trees.tree_hcount
  P.Generated.Trees.tree_isotope P.Generated.Trees.tree_map].

(* 1. every string, accepted or not: every event the reader emits carries values in range *)
Theorem E2E_reader_events_in_range : forall s h v, rd s = (v, h) -> Forall okev h.
Proof. exact reader_events_in_range. Qed.

(* 2. every accepted string has a normal form t -- what the writer prints for its events: t is accepted, replays the
      same events up to the shorthands, and writing those again gives t character for character *)
Theorem E2E_accepted_text_normalises : forall s h, rd s = (VOk, h) ->
  exists t, wr h = Some t /\ rd t = (VOk, map nkev h) /\ wr (map nkev h) = Some t.
Proof. exact accepted_text_normalises. Qed.
(*    ... and from t on nothing changes any more *)
Theorem E2E_normal_form_is_stable : forall s h, rd s = (VOk, h) ->
  exists t, wr h = Some t /\ rd t = (VOk, map nkev h) /\
    forall h', rd t = (VOk, h') -> wr h' = Some t /\ map nkev h' = h'.
Proof. exact normal_form_is_stable. Qed.

(* 3a. the builder only stores kinds it was given (every history) *)
Theorem E2E_built_graph_in_range : forall h g, Forall okev h -> bld h = BOk g -> okg g.
Proof. exact built_graph_in_range. Qed.
(* 3b. an accepted string's graph is a non-empty well-formed simple graph with values in range, one atom per atom event *)
Theorem E2E_accepted_graph_is_wellformed : forall s h g, rd s = (VOk, h) -> bld h = BOk g ->
  wf g = true /\ okg g /\ g <> [] /\ length g = length (filter is_new h).
Proof. exact accepted_graph_is_wellformed. Qed.

(* 3c. the pipeline: for every accepted string whose events build a graph (kinds outside the known class): the
       traversal stops at the documented limit, or succeeds, and then its text is accepted, replays the traversal's
       events, rebuilds to the expected round-trip graph, and that graph is traversed and written to the same text *)
Theorem E2E_pipeline : forall s h g, rd s = (VOk, h) -> bld h = BOk g -> safe_graph g ->
  fst (walk g) = WPanic 3 \/
  exists h2 t, let g' := map nk_atom (expected_roundtrip g) in
    walk g = (WOk, h2) /\
    wr h2 = Some t /\
    rd t = (VOk, map nkev h2) /\
    bld (map nkev h2) = BOk g' /\
    exists h3, walk g' = (WOk, h3) /\ map nkev h3 = map nkev h2 /\ wr h3 = Some t.
Proof. exact pipeline. Qed.
(* 3d. the pipeline's output text is a fixed point of the whole cycle *)
Theorem E2E_pipeline_output_is_fixed_point : forall s h g h2 t, rd s = (VOk, h) -> bld h = BOk g -> safe_graph g ->
  walk g = (WOk, h2) -> wr h2 = Some t ->
  exists hr gr h3, rd t = (VOk, hr) /\ bld hr = BOk gr /\ walk gr = (WOk, h3) /\ wr h3 = Some t.
Proof. exact pipeline_output_is_fixed_point. Qed.
(* 3e. the molecule survives the cycle: injective renumbering, same constitution at every atom, same bonds *)
Theorem E2E_pipeline_preserves_constitution : forall s h g h2, rd s = (VOk, h) -> bld h = BOk g -> safe_graph g ->
  walk g = (WOk, h2) ->
  let g' := expected_roundtrip g in
  bld h2 = BOk g' /\ length g' = length g /\
  exists phi : nat -> nat,
    (forall x y, x < length g -> y < length g -> phi x = phi y -> x = y) /\ (forall x, x < length g -> phi x < length g) /\
    forall x, x < length g -> exists a', nth_error g' (phi x) = Some a' /\
      constitution (akind a') = constitution (akind (atom_at g x)) /\
      Permutation (bonds a') (map (fun b => {| bk := bk b; tid := phi (tid b) |}) (bonds_of g x)).
Proof. exact pipeline_preserves_constitution. Qed.

Print Assumptions E2E_reader_events_in_range.
Print Assumptions E2E_accepted_text_normalises.
Print Assumptions E2E_normal_form_is_stable.
Print Assumptions E2E_built_graph_in_range.
Print Assumptions E2E_accepted_graph_is_wellformed.
Print Assumptions E2E_pipeline.
Print Assumptions E2E_pipeline_output_is_fixed_point.
Print Assumptions E2E_pipeline_preserves_constitution.
