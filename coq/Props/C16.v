(* C16 — debracketing never changes what an atom means. Statements only. *)
From Coq Require Import List String NArith Bool.
Import ListNotations.
Require Import P.Generated.Enums P.Spec.Values P.Generated.Tables P.Spec.Valence P.Model.Base P.Model.Atom P.Checks.Valence_defs P.Proofs.Valence.
Local Open Scope N_scope.

(* every bracket atom (symbolic in isotope / configuration / charge / map), every bond-order sum that fits a byte
   together with the hydrogen count: same element or wildcard, same aromatic flag, same hydrogen count at that sum;
   unchanged when any other field is present *)
Theorem C16_debracket_preserves_meaning : forall i s c h g m b, b < 256 -> b + hcount_of h <= 255 ->
  let k := AK_Bracket i s c h g m in
  exists k', debracket k b = Some k' /\ kind_element_name k' = kind_element_name k /\ kind_aromatic k' = kind_aromatic k /\
             hydrogens_spec k' b = hcount_of h /\ (any_field i c g m = true -> k' = k).
Proof. exact debracket_meaning. Qed.
(* ... and in a molecule: any atom of the returned kind whose bonds sum to b has that many hydrogens *)
Theorem C16_same_hydrogens_in_molecule : forall i s c h g m b k' bs, b < 256 -> b + hcount_of h <= 255 ->
  debracket (AK_Bracket i s c h g m) b = Some k' -> order_sum bs = b ->
  suppressed_hydrogens {| akind := k'; bonds := bs |} = hcount_of h.
Proof.
  intros i s c h g m b k' bs Hb Hfit Hd Hs. rewrite hydrogens_follow_spec. cbn [akind bonds]. rewrite Hs.
  destruct (debracket_meaning i s c h g m b Hb Hfit) as [k'' [E [_ [_ [H _]]]]]. rewrite Hd in E. inversion E. subst. exact H.
Qed.
Theorem C16_unbracketed_unchanged : forall k b, match k with AK_Bracket _ _ _ _ _ _ => True | _ => debracket k b = Some k end.
Proof. exact debracket_unbracketed. Qed.

Print Assumptions C16_debracket_preserves_meaning.
Print Assumptions C16_same_hydrogens_in_molecule.
Print Assumptions C16_unbracketed_unchanged.
