(* C15 — the trace maps every atom, bond and ring digit to its exact cursor. Statements only. *)
From Coq Require Import List NArith Bool.
Import ListNotations.
Require Import P.Generated.Enums P.Model.Base P.Model.Token P.Model.Reader P.Model.Trace P.Proofs.TraceCursors P.Proofs.TraceRings.
Strategy opaque [P.Generated.Trees.tree_symbol P.Generated.Trees.tree_organic P.Generated.Trees.tree_configuration
  P.Generated.Trees.tree_charge P.Generated.Trees.tree_bond P.Generated.Trees.tree_rnum P.Generated.Trees.tree_hcount
  P.Generated.Trees.tree_isotope P.Generated.Trees.tree_map].

(* every range and bond cursor the reader hands to the trace is anchored in the input: re-reading the input at the
   start of an atom / ring-token range gives that kind / number and consumes exactly the range; the bond cursor is
   where the bond symbol sits, or the start of the atom / ring token when the bond is elided *)
Theorem C15_reader_cursors_are_anchored : forall s, Forall (anchored s) (r_events (read s)).
Proof. exact reader_events_anchored. Qed.
(* the trace never panics on a reader stream, stores the ranges in order of appearance, and ids past the end map to nothing *)
Theorem C15_trace_total_on_reader_streams : forall s, exists t, tfold trace0 (r_events (read s)) = Some t.
Proof. exact reader_trace_total. Qed.
Theorem C15_trace_stores_ranges_in_order : forall h t, tfold trace0 h = Some t -> t_atoms t = atom_ranges h /\ t_rnums t = rnum_ranges h.
Proof. exact trace_stores_ranges. Qed.
Theorem C15_ids_past_the_end_map_to_nothing : forall h t i, tfold trace0 h = Some t -> length (atom_ranges h) <= i -> trace_atom t i = None.
Proof. exact trace_atom_past. Qed.
(* atom i maps to exactly the character range of its token; the k-th ring token to its range *)
Theorem C15_atom_range_slices_to_its_token : forall s t i a b, tfold trace0 (r_events (read s)) = Some t -> trace_atom t i = Some (a, b) ->
  a <= b /\ exists k, read_atom (skipn a s) = TOk k (b - a).
Proof. exact trace_atom_slices. Qed.
Theorem C15_rnum_range_slices_to_its_token : forall s t i a b, tfold trace0 (r_events (read s)) = Some t -> trace_rnum t i = Some (a, b) ->
  a <= b /\ exists r, read_rnum (skipn a s) = TOk r (b - a).
Proof. exact trace_rnum_slices. Qed.
(* a chain / branch bond maps, in both directions, to its bond cursor, unless a later ring closure joins the same two
   atoms again (which the builder refuses, C10) *)
Theorem C15_tree_bond_cursor_both_directions : forall h1 bk k bc a b h2 t1 t2 t,
  tfold trace0 h1 = Some t1 -> tstep t1 (RExtend bk k bc a b) = Some t2 -> tfold trace0 (h1 ++ RExtend bk k bc a b :: h2) = Some t ->
  let tid := length (atom_ranges h1) in
  exists sid, hd_error (t_stack t1) = Some sid /\ sid < tid /\ trace_atom t tid = Some (a, b) /\
    (never_reclosed t2 h2 sid tid -> trace_bond t sid tid = Some bc /\ trace_bond t tid sid = Some bc).
Proof. exact extend_bond_stored. Qed.


(* ---- ring closures: the two directions report their own ends ---- *)
(* ring number r is open exactly after an odd number of ring tokens r *)
Theorem C15_ring_open_iff_odd : forall h t r, tfold trace0 h = Some t -> (oget (t_opens t) r = None <-> jpar r h = false).
Proof. exact open_iff_odd. Qed.

(* an opening token r (r not open after h1) and its matching closing token (no token r in between), read with stack heads
   sid1 and sid2: (sid1,sid2) maps to the cursor of the OPENING end and (sid2,sid1) to the cursor of the CLOSING end,
   unless a later closure joins the same two atoms again; the two ring tokens are stored in order *)
Theorem C15_ring_bond_cursor_each_direction : forall h1 hmid h2 bk1 bk2 r bc1 a1 b1 bc2 a2 b2 t1 t,
  tfold trace0 h1 = Some t1 -> oget (t_opens t1) r = None -> Forall (not_join r) hmid ->
  tfold trace0 (h1 ++ RJoin bk1 r bc1 a1 b1 :: hmid ++ RJoin bk2 r bc2 a2 b2 :: h2) = Some t ->
  exists sid1 sid2 t2 t3,
    hd_error (t_stack t1) = Some sid1 /\
    tfold trace0 (h1 ++ RJoin bk1 r bc1 a1 b1 :: hmid) = Some t2 /\ hd_error (t_stack t2) = Some sid2 /\
    tstep t2 (RJoin bk2 r bc2 a2 b2) = Some t3 /\
    sid1 < length (atom_ranges h1) /\ sid2 < length (atom_ranges (h1 ++ RJoin bk1 r bc1 a1 b1 :: hmid)) /\
    trace_rnum t (length (rnum_ranges h1)) = Some (a1, b1) /\
    trace_rnum t (length (rnum_ranges (h1 ++ RJoin bk1 r bc1 a1 b1 :: hmid))) = Some (a2, b2) /\
    (never_reclosed t3 h2 sid1 sid2 ->
       trace_bond t sid1 sid2 = Some bc1 /\ (sid1 <> sid2 -> trace_bond t sid2 sid1 = Some bc2)).
Proof. exact ring_bond_stored. Qed.

(* on the events of an input string: each of the two cursors is the bond symbol written before that end's ring token,
   else the first character of that ring token *)
Theorem C15_ring_bond_cursors_in_the_input : forall s t h1 bk1 r bc1 a1 b1 hmid bk2 bc2 a2 b2 h2,
  tfold trace0 (r_events (read s)) = Some t ->
  r_events (read s) = h1 ++ RJoin bk1 r bc1 a1 b1 :: hmid ++ RJoin bk2 r bc2 a2 b2 :: h2 ->
  jpar r h1 = false -> Forall (not_join r) hmid ->
  exists t1 sid1 sid2 t2 t3,
    tfold trace0 h1 = Some t1 /\ hd_error (t_stack t1) = Some sid1 /\
    tfold trace0 (h1 ++ RJoin bk1 r bc1 a1 b1 :: hmid) = Some t2 /\ hd_error (t_stack t2) = Some sid2 /\
    tstep t2 (RJoin bk2 r bc2 a2 b2) = Some t3 /\
    sid1 < length (atom_ranges h1) /\ sid2 < length (atom_ranges (h1 ++ RJoin bk1 r bc1 a1 b1 :: hmid)) /\
    trace_rnum t (length (rnum_ranges h1)) = Some (a1, b1) /\
    trace_rnum t (length (rnum_ranges (h1 ++ RJoin bk1 r bc1 a1 b1 :: hmid))) = Some (a2, b2) /\
    ring_end_anchored s bk1 r bc1 a1 b1 /\ ring_end_anchored s bk2 r bc2 a2 b2 /\
    (never_reclosed t3 h2 sid1 sid2 ->
       trace_bond t sid1 sid2 = Some (if bondk_eqb bk1 BK_Elided then a1 else a1 - 1) /\
       (sid1 <> sid2 -> trace_bond t sid2 sid1 = Some (if bondk_eqb bk2 BK_Elided then a2 else a2 - 1))).
Proof. exact reader_ring_bond_cursors. Qed.

(* no bond event between x and y, or an id past the last atom: no entry *)
Theorem C15_unlinked_pair_maps_to_nothing : forall h t x y, tfold trace0 h = Some t -> never_linked trace0 h x y -> trace_bond t x y = None.
Proof. exact unlinked_bond_none. Qed.
Theorem C15_bond_ids_past_the_end_map_to_nothing : forall h t x y, tfold trace0 h = Some t ->
  length (atom_ranges h) <= x \/ length (atom_ranges h) <= y -> trace_bond t x y = None.
Proof. exact trace_bond_past. Qed.
(* a pop changes no atom / bond / ring-token entry *)
Theorem C15_pop_changes_no_entry : forall t d t', tstep t (RPop d) = Some t' ->
  (forall x y, trace_bond t' x y = trace_bond t x y) /\ (forall i, trace_atom t' i = trace_atom t i) /\
  (forall i, trace_rnum t' i = trace_rnum t i).
Proof. exact pop_changes_no_entry. Qed.

Print Assumptions C15_reader_cursors_are_anchored.
Print Assumptions C15_trace_total_on_reader_streams.
Print Assumptions C15_trace_stores_ranges_in_order.
Print Assumptions C15_ids_past_the_end_map_to_nothing.
Print Assumptions C15_atom_range_slices_to_its_token.
Print Assumptions C15_rnum_range_slices_to_its_token.
Print Assumptions C15_tree_bond_cursor_both_directions.
Print Assumptions C15_ring_open_iff_odd.
Print Assumptions C15_ring_bond_cursor_each_direction.
Print Assumptions C15_ring_bond_cursors_in_the_input.
Print Assumptions C15_unlinked_pair_maps_to_nothing.
Print Assumptions C15_bond_ids_past_the_end_map_to_nothing.
Print Assumptions C15_pop_changes_no_entry.
