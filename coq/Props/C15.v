(* C15 — the trace maps every atom, bond and ring digit to its exact cursor. Statements only. *)
From Coq Require Import List NArith Bool.
Require Import P.Model.Base P.Model.Token P.Model.Reader P.Model.Trace P.Proofs.TraceCursors.

(* every range and bond cursor the reader hands to the trace is anchored in the input: re-reading the input at the
   start of an atom / ring-token range gives that kind / number and consumes exactly the range; the bond cursor is
   where the bond symbol sits, or the start of the atom / ring token when the bond is elided *)
Theorem C15_reader_cursors_are_anchored : forall s, Forall (anchored s) (r_events (read s)).
Proof. exact reader_events_anchored. Qed.
(* the trace never panics on a reader stream, stores the ranges in order of appearance, and ids past the end map to nothing *)
Theorem C15_trace_total_on_reader_streams : forall s, exists t, tfold trace0 (r_events (read s)) = Some t.
Proof. exact reader_trace_total. Qed.
Theorem C15_trace_stores_ranges_in_order : forall h t, tfold trace0 h = Some t -> t_atoms t = atom_ranges h /\ t_rnums t = rnum_ranges h.
Proof. exact trace_stores_ranges. Qed.
Theorem C15_ids_past_the_end_map_to_nothing : forall h t i, tfold trace0 h = Some t -> length (atom_ranges h) <= i -> trace_atom t i = None.
Proof. exact trace_atom_past. Qed.
(* atom i maps to exactly the character range of its token; the k-th ring token to its range *)
Theorem C15_atom_range_slices_to_its_token : forall s t i a b, tfold trace0 (r_events (read s)) = Some t -> trace_atom t i = Some (a, b) ->
  a <= b /\ exists k, read_atom (skipn a s) = TOk k (b - a).
Proof. exact trace_atom_slices. Qed.
Theorem C15_rnum_range_slices_to_its_token : forall s t i a b, tfold trace0 (r_events (read s)) = Some t -> trace_rnum t i = Some (a, b) ->
  a <= b /\ exists r, read_rnum (skipn a s) = TOk r (b - a).
Proof. exact trace_rnum_slices. Qed.
(* a chain / branch bond maps, in both directions, to its bond cursor, unless a later ring closure joins the same two
   atoms again (which the builder refuses, C10) *)
Theorem C15_tree_bond_cursor_both_directions : forall h1 bk k bc a b h2 t1 t2 t,
  tfold trace0 h1 = Some t1 -> tstep t1 (RExtend bk k bc a b) = Some t2 -> tfold trace0 (h1 ++ RExtend bk k bc a b :: h2) = Some t ->
  let tid := length (atom_ranges h1) in
  exists sid, hd_error (t_stack t1) = Some sid /\ sid < tid /\ trace_atom t tid = Some (a, b) /\
    (never_reclosed t2 h2 sid tid -> trace_bond t sid tid = Some bc /\ trace_bond t tid sid = Some bc).
Proof. exact extend_bond_stored. Qed.

Print Assumptions C15_reader_cursors_are_anchored.
Print Assumptions C15_trace_total_on_reader_streams.
Print Assumptions C15_trace_stores_ranges_in_order.
Print Assumptions C15_ids_past_the_end_map_to_nothing.
Print Assumptions C15_atom_range_slices_to_its_token.
Print Assumptions C15_rnum_range_slices_to_its_token.
Print Assumptions C15_tree_bond_cursor_both_directions.
