(* C18 — feature type conversions are exact, total on their range and inverse.
   Only statements; every proof is `exact` of a lemma of Proofs/C18_conv.v. *)
From Coq Require Import List String ZArith NArith Bool.
Require Import P.Generated.Enums P.Spec.Values P.Generated.Tables P.Spec.Spelling P.Checks.C18_defs P.Proofs.C18_conv.

Theorem C18_charge_try_from_exact : forall z, (-128 <= z <= 127)%Z ->
  charge_of_i8 z = charge_spec z /\ (charge_of_i8 z <> None <-> (-15 <= z <= 15 /\ z <> 0)%Z).
Proof. exact charge_try_from_exact. Qed.
Theorem C18_charge_into_inverse : forall c, i8_of_charge c = charge_value c /\ charge_of_i8 (i8_of_charge c) = Some c.
Proof. exact charge_into_inverse. Qed.
Theorem C18_charge_injective : forall z1 z2 c, (-128 <= z1 <= 127)%Z -> (-128 <= z2 <= 127)%Z ->
  charge_of_i8 z1 = Some c -> charge_of_i8 z2 = Some c -> z1 = z2.
Proof. exact charge_injective. Qed.
Theorem C18_hcount_try_from_exact : forall n, (n < 256)%N -> vh_of_u8 n = vh_spec n /\ (vh_of_u8 n <> None <-> (n < 10)%N).
Proof. exact vh_try_from_exact. Qed.
Theorem C18_hcount_into_inverse : forall h, u8_of_vh h = vh_value h /\ vh_of_u8 (u8_of_vh h) = Some h.
Proof. exact vh_into_inverse. Qed.
Theorem C18_rnum_try_from_exact : forall n, (n < 65536)%N -> rnum_of_u16 n = rnum_spec n.
Proof. exact rnum_try_from_exact. Qed.
Theorem C18_rnum_range_injective : forall n, (n < 65536)%N ->
  (rnum_of_u16 n <> None <-> (n < 100)%N) /\ forall r, rnum_of_u16 n = Some r -> rnum_value r = n.
Proof. exact rnum_range_injective. Qed.
Theorem C18_rnum_value_inverse : forall r, (rnum_value r < 100)%N /\ rnum_of_u16 (rnum_value r) = Some r.
Proof. exact rnum_value_inverse. Qed.
Theorem C18_number_try_from_exact : forall n, (n < 65536)%N -> number_of_u16 n = number_spec n.
Proof. exact number_try_from_exact. Qed.
Theorem C18_number_of_digit_strings : forall len v, (1 <= len <= 5)%nat -> (v < 10 ^ N.of_nat len)%N ->
  number_of_digits len v = number_spec v.
Proof. exact number_of_digits_exact. Qed.
Theorem C18_bond_kind : forall k,
  reverse_bond_kind (reverse_bond_kind k) = k /\ reverse_bond_kind k = up_down k /\ order_bond_kind k = order_spec k /\
  directional_bond_kind k = negb (bond_kind_eqb (up_down k) k).
Proof. exact bond_kind_facts. Qed.
Theorem C18_symbol_conversions :
  (forall e a, aliphatic_of_element e = Some a -> name_aliphatic a = name_element e) /\
  (forall e, aliphatic_of_element e = None -> forall a, name_aliphatic a <> name_element e) /\
  (forall a, name_aliphatic (aliphatic_of_aromatic a) = name_aromatic a) /\
  (forall b, name_element (element_of_bracket_aromatic b) = name_bracket_aromatic b) /\
  (forall b a, aromatic_of_bracket_aromatic b = Some a -> name_aromatic a = name_bracket_aromatic b) /\
  (forall b, aromatic_of_bracket_aromatic b = None -> forall a, name_aromatic a <> name_bracket_aromatic b).
Proof. exact symbol_conversions_keep_element. Qed.
Theorem C18_text_shows_the_integer :
  (forall c, display_charge c = spelling_charge c) /\ (forall h, display_virtual_hydrogen h = spelling_virtual_hydrogen h) /\
  (forall r, display_rnum r = spelling_rnum r) /\ (forall p, In p display_number_samples -> snd p = dec (fst p)).
Proof. exact text_shows_the_integer. Qed.

(* String -> Number on strings outside the tabulated domain (a finite list of probes regenerated on every run: digit
   strings up to 51 characters around 2^16, 2^32, 2^64, signs, blanks, non-ASCII numerals, random strings): no panic,
   and exactly the unbounded specification, whose values are below 1000 *)
Theorem C18_number_of_probed_strings : forall s r, In (s, r) number_of_string_probes ->
  exists o, r = Some o /\ opt_eqb N.eqb o (number_string_spec s) = true.
Proof. exact number_of_probed_strings. Qed.
Theorem C18_number_string_spec_in_range : forall s v, number_string_spec s = Some v -> (v < 1000)%N.
Proof. exact number_string_spec_range. Qed.
Print Assumptions C18_charge_try_from_exact.
Print Assumptions C18_charge_into_inverse.
Print Assumptions C18_charge_injective.
Print Assumptions C18_hcount_try_from_exact.
Print Assumptions C18_hcount_into_inverse.
Print Assumptions C18_rnum_try_from_exact.
Print Assumptions C18_rnum_range_injective.
Print Assumptions C18_rnum_value_inverse.
Print Assumptions C18_number_try_from_exact.
Print Assumptions C18_number_of_digit_strings.
Print Assumptions C18_bond_kind.
Print Assumptions C18_symbol_conversions.
Print Assumptions C18_text_shows_the_integer.
Print Assumptions C18_number_of_probed_strings.
Print Assumptions C18_number_string_spec_in_range.
