(* C08 — follower event streams are always protocol-conformant. Statements only. *)
From Coq Require Import List NArith Bool.
Require Import P.Model.Base P.Model.Reader P.Model.Walk P.Model.Builder P.Spec.Events P.Spec.Graph P.Proofs.WalkInv P.Proofs.ReaderConf P.Proofs.C12_Final P.Proofs.DfsOrderClosed P.Proofs.BuilderMore.

(* every string, accepted or not: the stream up to the error is conformant *)
Theorem C08_reader_conformant : forall s : list N, conformant (snd (rd s)) = true.
Proof. exact reader_conformant. Qed.
(* every adjacency list whatsoever; also: the `expect("chain head")` site is unreachable and the loop terminates *)
Theorem C08_walk_conformant : forall g : list atom,
  let '(r, h) := walk g in r <> WPanic 1 /\ r <> WFuel /\ conformant h = true.
Proof. exact walk_safe. Qed.

(* on well-formed lists the joins come in matched pairs, one on each atom of the bond, and nothing stays open *)
Theorem C08_walk_joins_matched : forall g h, wf g = true -> safe_graph g -> walk g = (WOk, h) -> joins_matched h = true.
Proof.
  intros g h Hwf Hs Hw. pose proof (walk_safe g) as Hsafe. rewrite Hw in Hsafe. destruct Hsafe as [_ [_ Hc]].
  exact (build_ok_joins_matched h _ Hc (C12_closed_form g h Hwf Hs Hw)).
Qed.
Print Assumptions C08_reader_conformant.
Print Assumptions C08_walk_joins_matched.
Print Assumptions C08_walk_conformant.
