(* C08 — follower event streams are always protocol-conformant. Statements only. *)
From Coq Require Import List NArith Bool.
Require Import P.Model.Base P.Model.Reader P.Model.Walk P.Spec.Events P.Proofs.WalkInv P.Proofs.ReaderConf.

(* every string, accepted or not: the stream up to the error is conformant *)
Theorem C08_reader_conformant : forall s : list N, conformant (snd (rd s)) = true.
Proof. exact reader_conformant. Qed.
(* every adjacency list whatsoever; also: the `expect("chain head")` site is unreachable and the loop terminates *)
Theorem C08_walk_conformant : forall g : list atom,
  let '(r, h) := walk g in r <> WPanic 1 /\ r <> WFuel /\ conformant h = true.
Proof. exact walk_safe. Qed.

Print Assumptions C08_reader_conformant.
Print Assumptions C08_walk_conformant.
