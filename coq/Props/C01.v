(* C01 — round trip preserves the molecule's constitution. Statements only.
   Graph level (walk -> events -> builder) is proved here for every well-formed adjacency list; the text in between
   is C09's theorem (the reader replays the writer's history up to the documented shorthands).  The composition
   "builder on the re-read history = builder on the history, up to the shorthands" is evaluated on the
   implementation's outputs (C01.text_round_trip_is_isomorphic) and is the one lemma not yet proved. *)
From Coq Require Import List NArith Bool Permutation.
Require Import P.Spec.Values P.Spec.Normal P.Spec.Events P.Spec.Graph P.Model.Base P.Model.Reader P.Model.Writer P.Model.Walk P.Model.Builder
  P.Proofs.D1 P.Proofs.BodyFacts P.Proofs.C09_Writer P.Proofs.C09_Final P.Proofs.C12_Final P.Proofs.C01.

Theorem C01_graph_round_trip_preserves_constitution : forall g h, wf g = true -> safe_graph g -> walk g = (WOk, h) ->
  exists (phi : nat -> nat) g', bld h = BOk g' /\ length g' = length g /\
    (forall x y, x < length g -> y < length g -> phi x = phi y -> x = y) /\ (forall x, x < length g -> phi x < length g) /\
    forall x, x < length g -> exists a', nth_error g' (phi x) = Some a' /\
      constitution (akind a') = constitution (akind (atom_at g x)) /\
      Permutation (bonds a') (map (fun b => {| bk := bk b; tid := phi (tid b) |}) (bonds_of g x)).
Proof. exact roundtrip_graph. Qed.
Theorem C01_text_is_accepted_and_replays_history : forall h, conformant_history h -> Forall okev h ->
  exists text, wr h = Some text /\ rd text = (VOk, map nkev h).
Proof. exact C09_inverse. Qed.

Print Assumptions C01_graph_round_trip_preserves_constitution.
Print Assumptions C01_text_is_accepted_and_replays_history.
