(* C01 — round trip preserves the molecule's constitution. Statements only.
   Text level: write a well-formed graph, read the text, build: the result is the specification's expected graph
   (Spec/Roundtrip.v) up to the reading shorthands.  Graph level: the renaming is injective, constitution and bonds are
   preserved at every atom. *)
From Coq Require Import List NArith Bool Permutation.
Require Import P.Spec.Values P.Spec.Normal P.Spec.Events P.Spec.Graph P.Model.Base P.Model.Reader P.Model.Writer P.Model.Walk P.Model.Builder
  P.Proofs.D1 P.Proofs.BodyFacts P.Proofs.C09_Writer P.Proofs.C09_Final P.Proofs.C12_Final P.Proofs.C01 P.Spec.Roundtrip P.Proofs.BuilderMore P.Proofs.WalkValues P.Proofs.C01_Text.

Theorem C01_graph_round_trip_preserves_constitution : forall g h, wf g = true -> safe_graph g -> walk g = (WOk, h) ->
  exists (phi : nat -> nat) g', bld h = BOk g' /\ length g' = length g /\
    (forall x y, x < length g -> y < length g -> phi x = phi y -> x = y) /\ (forall x, x < length g -> phi x < length g) /\
    forall x, x < length g -> exists a', nth_error g' (phi x) = Some a' /\
      constitution (akind a') = constitution (akind (atom_at g x)) /\
      Permutation (bonds a') (map (fun b => {| bk := bk b; tid := phi (tid b) |}) (bonds_of g x)).
Proof. exact roundtrip_graph. Qed.
Theorem C01_text_is_accepted_and_replays_history : forall h, conformant_history h -> Forall okev h ->
  exists text, wr h = Some text /\ rd text = (VOk, map nkev h).
Proof. exact C09_inverse. Qed.
(* every non-empty well-formed adjacency list accepted by the traversal, with kinds outside C06's known class and values
   in range: the written text is accepted by the reader, replays the traversal's history, and builds to the expected
   graph (depth-first renumbering, same constitution, same bonds with the same kinds as seen from each end) *)
Theorem C01_text_round_trip : forall g h, wf g = true -> safe_graph g -> okg g -> g <> nil -> walk g = (WOk, h) ->
  exists text, wr h = Some text /\ rd text = (VOk, map nkev h) /\ bld (map nkev h) = BOk (map nk_atom (expected_roundtrip g)).
Proof. exact text_round_trip. Qed.

Print Assumptions C01_text_round_trip.
Print Assumptions C01_graph_round_trip_preserves_constitution.
Print Assumptions C01_text_is_accepted_and_replays_history.
