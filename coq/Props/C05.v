(* C05 — syntax errors point at the first offending character. Statements only.
   Token level (all strings): a reported Character(i) is the highest inspected position, and the reported positions
   agree with the specification tries of the documented families (which report the first position where no member
   of the family can continue).  Whole reader, all strings: the cursor is the first non-viable prefix of the
   declarative grammar of Spec/Lang.v; the viable-prefix recogniser of Spec/Grammar.v is still evaluated on the
   implementation's verdicts on every run. *)
From Coq Require Import List NArith Bool.
Require P.Proofs.LangFinal P.Proofs.GrammarOracleFinal P.Spec.Grammar.
Require Import P.Spec.Lang P.Model.Base P.Model.Reader.
Strategy opaque [P.Generated.Trees.tree_symbol P.Generated.Trees.tree_organic P.Generated.Trees.tree_configuration
  P.Generated.Trees.tree_charge P.Generated.Trees.tree_bond P.Generated.Trees.tree_rnum P.Generated.Trees.tree_hcount
  P.Generated.Trees.tree_isotope P.Generated.Trees.tree_map].
Require Import P.Generated.Enums P.Meta.Scan P.Spec.Values P.Spec.Reading P.Generated.Trees P.Checks.Reading_defs P.Proofs.TokenSafe P.Proofs.Reading.

Theorem C05_reported_index_is_last_inspected_position :
  every tree_symbol err_discipline /\ every tree_organic err_discipline /\ every tree_configuration err_discipline /\
  every tree_charge err_discipline /\ every tree_rnum err_discipline /\ every tree_hcount err_discipline /\
  every tree_isotope err_discipline /\ every tree_map err_discipline.
Proof.
  exact (conj discipline_symbol (conj discipline_organic (conj discipline_configuration (conj discipline_charge
        (conj discipline_rnum (conj discipline_hcount (conj discipline_isotope discipline_map))))))).
Qed.
Theorem C05_token_error_positions_as_documented :
  (forall s, same bs_eqb (run tree_symbol s 0 0) (run spec_symbol s 0 0) = true) /\
  (forall s, same configuration_eqb (run tree_configuration s 0 0) (run spec_configuration s 0 0) = true) /\
  (forall s, same charge_eqb (run tree_charge s 0 0) (run spec_charge s 0 0) = true) /\
  (forall s, same rnum_eqb (run tree_rnum s 0 0) (run spec_rnum s 0 0) = true) /\
  (forall s, same N.eqb (run tree_map s 0 0) (run spec_map s 0 0) = true).
Proof.
  exact (conj symbol_as_documented (conj configuration_as_documented (conj charge_as_documented (conj rnum_as_documented map_as_documented)))).
Qed.

(* ---- the whole reader, every string: Character(i) is reported exactly at the first character that makes the prefix
   non-viable (no continuation of the first i+1 characters is a sentence, while the first i characters can be continued),
   and EndOfLine exactly on a viable, incomplete input.  viable p := exists q, Lang (p ++ q). *)
Theorem C05_character_is_first_non_viable_prefix : forall s i h, rd s = (VChar i, h) ->
  i < length s /\ viable (firstn i s) /\ ~ viable (firstn (S i) s).
Proof. exact P.Proofs.LangFinal.C05_character. Qed.
Theorem C05_end_of_line_is_viable_incomplete_input : forall s h, rd s = (VEol, h) -> viable s /\ ~ Lang s.
Proof. exact P.Proofs.LangFinal.C05_end_of_line. Qed.

(* the executable viable-prefix recogniser that the check evaluates on the implementation's cursors decides viability *)
Theorem C05_executable_recogniser_decides_viability : forall s, P.Spec.Grammar.viable_spec s = true <-> viable s.
Proof. exact P.Proofs.GrammarOracleFinal.viable_spec_correct. Qed.

Print Assumptions C05_reported_index_is_last_inspected_position.
Print Assumptions C05_token_error_positions_as_documented.
Print Assumptions C05_character_is_first_non_viable_prefix.
Print Assumptions C05_end_of_line_is_viable_incomplete_input.
Print Assumptions C05_executable_recogniser_decides_viability.
