(* C05 — syntax errors point at the first offending character. Statements only.
   Token level (all strings): a reported Character(i) is the highest inspected position, and the reported positions
   agree with the specification tries of the documented families (which report the first position where no member
   of the family can continue).  Driver level: decided by evaluating the viable-prefix specification
   (Spec/Grammar.v) on the implementation's verdicts; not yet a theorem. *)
From Coq Require Import List NArith Bool.
Require Import P.Generated.Enums P.Meta.Scan P.Spec.Values P.Spec.Reading P.Generated.Trees P.Checks.Reading_defs P.Proofs.TokenSafe P.Proofs.Reading.

Theorem C05_reported_index_is_last_inspected_position :
  every tree_symbol err_discipline /\ every tree_organic err_discipline /\ every tree_configuration err_discipline /\
  every tree_charge err_discipline /\ every tree_rnum err_discipline /\ every tree_hcount err_discipline /\
  every tree_isotope err_discipline /\ every tree_map err_discipline.
Proof.
  exact (conj discipline_symbol (conj discipline_organic (conj discipline_configuration (conj discipline_charge
        (conj discipline_rnum (conj discipline_hcount (conj discipline_isotope discipline_map))))))).
Qed.
Theorem C05_token_error_positions_as_documented :
  (forall s, same bs_eqb (run tree_symbol s 0 0) (run spec_symbol s 0 0) = true) /\
  (forall s, same configuration_eqb (run tree_configuration s 0 0) (run spec_configuration s 0 0) = true) /\
  (forall s, same charge_eqb (run tree_charge s 0 0) (run spec_charge s 0 0) = true) /\
  (forall s, same rnum_eqb (run tree_rnum s 0 0) (run spec_rnum s 0 0) = true) /\
  (forall s, same N.eqb (run tree_map s 0 0) (run spec_map s 0 0) = true).
Proof.
  exact (conj symbol_as_documented (conj configuration_as_documented (conj charge_as_documented (conj rnum_as_documented map_as_documented)))).
Qed.

Print Assumptions C05_reported_index_is_last_inspected_position.
Print Assumptions C05_token_error_positions_as_documented.
