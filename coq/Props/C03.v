(* C03 — round trip preserves stereochemistry. Statements only. *)
From Coq Require Import List NArith Bool.
Require Import P.Spec.Values P.Spec.Graph P.Model.Base P.Model.Walk P.Model.Builder P.Proofs.D0 P.Proofs.D1 P.Proofs.D2 P.Proofs.D7 P.Proofs.Stereo P.Proofs.C12_Final.

(* the kind the rebuilt atom carries: unchanged for a component root; for an atom entered through the bond at index k
   of its list the @/@@ mark is flipped exactly when k is odd (with and without a virtual hydrogen), and every other
   kind or configuration label is unchanged *)
Theorem C03_kind_after_round_trip : forall g gh x, kind_final g gh x =
  match par gh x with
  | None => akind (atom_at g x)
  | Some p => if should_flip (index_of p (map tid (bonds_of g x))) then flip_TH (akind (atom_at g x)) else akind (atom_at g x)
  end.
Proof. exact kind_final_spec. Qed.
(* moving the entry at index k to the front is a permutation with k inversions: odd exactly when k is odd *)
Theorem C03_parity_of_moving_to_front : forall n k, k < n -> inversions (move_to_front k (seq 0 n)) = k.
Proof. exact parity_move_to_front. Qed.
(* the new neighbour order is the old one with the arrival bond moved to the front, and the mark follows its parity *)
Theorem C03_mark_follows_permutation_parity : forall g gh x p bb, par gh x = Some p -> find_to p (bonds_of g x) = Some bb ->
  let k := index_of p (map tid (bonds_of g x)) in
  arrival_first g gh x = bb :: firstn k (bonds_of g x) ++ skipn (S k) (bonds_of g x) /\
  nth_error (bonds_of g x) k = Some bb /\
  Nat.odd (inversions (move_to_front k (seq 0 (length (bonds_of g x))))) = should_flip k /\
  kind_final g gh x = if should_flip k then flip_TH (akind (atom_at g x)) else akind (atom_at g x).
Proof. exact arrival_first_is_move_to_front. Qed.
(* directional bonds: the rebuilt bond list carries, at each end, the kind written at that end (C12) *)
Theorem C03_bond_kinds_kept_per_end : forall g h, wf g = true -> safe_graph g -> walk g = (WOk, h) ->
  exists gh g', bld h = BOk g' /\ length g' = length g /\ NoDup (order gh) /\ (forall x, In x (order gh) <-> x < length g) /\
    forall x, x < length g -> nth_error g' (phi gh x) = Some {| akind := kind_final g gh x; bonds := map (rename gh) (arrival_first g gh x) |}.
Proof. exact C12_from_wf. Qed.
(* reading: the builder compensates for a virtual hydrogen on a non-root tetrahedral centre and touches nothing else *)
Theorem C03_builder_adjustment : forall idx k, final_of idx k = if should_flip idx then flip_TH k else k.
Proof. exact final_of_spec. Qed.

Print Assumptions C03_kind_after_round_trip.
Print Assumptions C03_parity_of_moving_to_front.
Print Assumptions C03_mark_follows_permutation_parity.
Print Assumptions C03_bond_kinds_kept_per_end.
Print Assumptions C03_builder_adjustment.
