(* Non-vacuity witnesses, part 3: the ring-number pool (C13, C06_pool_panics_only_at_the_limit), the trace (C15), and the
   per-atom / per-value properties (C16, C17, C18). *)
From Coq Require Import String List ZArith NArith Bool Arith Lia.
Import ListNotations.
Require Import P.Generated.Enums P.Spec.Values P.Generated.Tables P.Spec.Spelling P.Spec.Valence P.Spec.Lang P.Meta.Scan
  P.Model.Base P.Model.Token P.Model.Reader P.Model.Trace P.Model.Pool P.Model.Walk P.Model.Atom
  P.Checks.C18_defs P.Checks.Valence_defs P.Proofs.C18_conv P.Proofs.Valence
  P.Proofs.PoolSpec P.Proofs.PoolReach P.Proofs.TraceCursors P.Proofs.TraceRings.
Require Import P.Props.NonVacuity1.
Require P.Props.C06 P.Props.C13 P.Props.C15 P.Props.C16 P.Props.C17 P.Props.C18.
Strategy opaque [P.Generated.Trees.tree_symbol P.Generated.Trees.tree_organic P.Generated.Trees.tree_configuration P.Generated.Trees.tree_charge P.Generated.Trees.tree_bond P.Generated.Trees.tree_rnum P.Generated.Trees.tree_hcount P.Generated.Trees.tree_isotope P.Generated.Trees.tree_map].

(* ================= C13 ================= *)
(* a pool state is reachable if a sequence of hits leads to it from the empty pool *)
Fixpoint hits (l : list (nat * nat)) (p : pool) : option pool :=
  match l with [] => Some p | (x, y) :: t => match hit p x y with POk _ p' => hits t p' | _ => None end end.
Lemma hits_reach l : forall p p', reach p -> hits l p = Some p' -> reach p'.
Proof.
  induction l as [|[x y] t IH]; intros p p' Hr H; cbn [hits] in H; [inversion H; subst; exact Hr|].
  destruct (hit p x y) as [n q| |] eqn:E; try discriminate. exact (IH q p' (reach_hit p x y n q Hr E) H).
Qed.
(* open (0,5) -> 1, (0,3) -> 2, (2,7) -> 3; close (3,0) (other orientation; 2 becomes free); open (4,9) -> 2 again;
   open (1,6) -> 4: four closures open, numbers 1 3 2 4, one number recycled *)
Definition hitsA : list (nat * nat) := [(0,5); (0,3); (2,7); (3,0); (4,9); (1,6)].
Definition pA : pool := match hits hitsA pool0 with Some p => p | None => pool0 end.
Example pA_value : pA = {| counter := 5%N; borrowed := [((1,6),4%N); ((4,9),2%N); ((2,7),3%N); ((0,5),1%N)]; replaced := [] |}.
Proof. vm_compute. reflexivity. Qed.
Example pA_reach : reach pA. Proof. apply (hits_reach hitsA pool0 pA reach0). vm_compute. reflexivity. Qed.
(* C13_pool_refines_smallest_free : reach p -> match lookup ... (two cases, the first with N.of_nat (length ..) < 99) *)
Definition nv_C13_refines_close := P.Props.C13.C13_pool_refines_smallest_free pA 7 2 pA_reach.
Definition nv_C13_refines_open := P.Props.C13.C13_pool_refines_smallest_free pA 8 9 pA_reach.
Example nv_C13_both_cases : P.Model.Pool.lookup (borrowed pA) (7, 2) = Some 3%N /\ P.Model.Pool.lookup (borrowed pA) (8, 9) = None /\
  (N.of_nat (List.length (borrowed pA)) < 99)%N.
Proof. vm_compute. repeat split. Qed.
(*   ... and after closing (7,2) the next new closure gets 3, not 5 *)
Definition pA' : pool := match hits [(7,2)] pA with Some p => p | None => pool0 end.
Example pA'_reach : reach pA'. Proof. apply (hits_reach [(7,2)] pA pA' pA_reach). vm_compute. reflexivity. Qed.
Example nv_C13_recycled : exists p', hit pA' 8 9 = POk 3%N p'. Proof. eexists. vm_compute. reflexivity. Qed.
(* C13_never_runs_out_early : reach p -> N.of_nat (length (borrowed p)) < 99 -> ... *)
Example pA'_below : (N.of_nat (List.length (borrowed pA')) < 99)%N. Proof. vm_compute. reflexivity. Qed.
Definition nv_C13_never := P.Props.C13.C13_never_runs_out_early pA' 8 9 pA'_reach pA'_below.
(* C13_new_number_bounded_by_open_count : NoDup (nums b) -> min_free b n -> ...     b = the open closures of pA' (1 2 4), n = 3 *)
Example pA'_nodup : NoDup (nums (borrowed pA')).
Proof. vm_compute. repeat (constructor; [cbn; intuition discriminate|]). constructor. Qed.
Example pA'_min_free : min_free (borrowed pA') 3%N.
Proof.
  split; [lia|]. split; [vm_compute; intuition discriminate|].
  intros m Hm. assert (m = 1 \/ m = 2)%N as [-> | ->] by lia; vm_compute; auto.
Qed.
Definition nv_C13_bound := P.Props.C13.C13_new_number_bounded_by_open_count (borrowed pA') 3%N pA'_nodup pA'_min_free.

(* ================= C06 (pool clause) ================= *)
(* C06_pool_panics_only_at_the_limit : reach (wpool s) -> ...      s = the traversal of gA (NonVacuity1.v) stopped after six
   steps: closure 1 is open, the next step opens closure 2 *)
Fixpoint steps (n size : nat) (s : wstate) : option wstate :=
  match n with 0 => Some s | S n => match step size s with Cont s' => steps n size s' | _ => None end end.
Definition stA : wstate :=
  match steps 6 (List.length gA) (start_root (state0 gA) 0 (nth 0 gA (mkA AK_Star []))) with Some s => s | None => state0 gA end.
Example stA_pool : wpool stA = match hits [(3,0)] pool0 with Some p => p | None => pool0 end /\ borrowed (wpool stA) = [((3,0),1%N)].
Proof. vm_compute. split; reflexivity. Qed.
Example stA_reach : reach (wpool stA).
Proof. rewrite (proj1 stA_pool). apply (hits_reach [(3,0)] pool0 _ reach0). vm_compute. reflexivity. Qed.
Definition nv_C06_pool := P.Props.C06.C06_pool_panics_only_at_the_limit (List.length gA) stA stA_reach.
Example stA_next_step_is_a_hit : match step (List.length gA) stA with Cont s' => borrowed (wpool s') = [((1,0),2%N); ((3,0),1%N)] | _ => False end.
Proof. vm_compute. reflexivity. Qed.

(* ================= C15 ================= *)
(* C15_reader_cursors_are_anchored, C15_trace_total_on_reader_streams : no hypotheses *)
(* witness: C(=O)C=1C/2CC=1N\2 -- a branch, ring 1 opened and closed with "=" written at both ends, ring 2 opened with "/"
   and closed with "\" while ring 1 is still open.  Its reader events, by index:
     0 root C 0..1        1 extend =O (bond 2) 3..4   2 pop 1              3 extend C 5..6 (atom 2)
     4 join =1 (6) 7..8   5 extend C 8..9 (atom 3)    6 join /2 (9) 10..11 7 extend C (atom 4)   8 extend C (atom 5)
     9 join =1 (13) 14..15   10 extend N 15..16 (atom 6)   11 join \2 (16) 17..18 *)
Definition sT : list N := str "C(=O)C=1C/2CC=1N\2".
Definition evT : list rcall := r_events (read sT).
Definition fold_or0 (h : list rcall) : trace := match tfold trace0 h with Some t => t | None => trace0 end.
Definition tT : trace := fold_or0 evT.
Example evT_value : evT =
  [RRoot (AK_Aliphatic Al_C) 0 1; RExtend BK_Double (AK_Aliphatic Al_O) 2 3 4; RPop 1; RExtend BK_Elided (AK_Aliphatic Al_C) 5 5 6;
   RJoin BK_Double 1%N 6 7 8; RExtend BK_Elided (AK_Aliphatic Al_C) 8 8 9; RJoin BK_Up 2%N 9 10 11;
   RExtend BK_Elided (AK_Aliphatic Al_C) 11 11 12; RExtend BK_Elided (AK_Aliphatic Al_C) 12 12 13; RJoin BK_Double 1%N 13 14 15;
   RExtend BK_Elided (AK_Aliphatic Al_N) 15 15 16; RJoin BK_Down 2%N 16 17 18].
Proof. vm_compute. reflexivity. Qed.
Example tT_fold : tfold trace0 evT = Some tT. Proof. vm_compute. reflexivity. Qed.
Example tT_fold_s : tfold trace0 (r_events (read sT)) = Some tT. Proof. exact tT_fold. Qed.
(* C15_trace_stores_ranges_in_order : tfold trace0 h = Some t -> ... *)
Definition nv_C15_ranges := P.Props.C15.C15_trace_stores_ranges_in_order evT tT tT_fold.
(* C15_ids_past_the_end_map_to_nothing : tfold trace0 h = Some t -> length (atom_ranges h) <= i -> ... *)
Example nv_C15_past_hyp : List.length (atom_ranges evT) <= 7. Proof. vm_compute. lia. Qed.
Definition nv_C15_past := P.Props.C15.C15_ids_past_the_end_map_to_nothing evT tT 7 tT_fold nv_C15_past_hyp.
(* C15_atom_range_slices_to_its_token : tfold trace0 (r_events (read s)) = Some t -> trace_atom t i = Some (a, b) -> ...    the N *)
Example nv_C15_atom_hyp : trace_atom tT 6 = Some (15, 16). Proof. vm_compute. reflexivity. Qed.
Definition nv_C15_atom := P.Props.C15.C15_atom_range_slices_to_its_token sT tT 6 15 16 tT_fold_s nv_C15_atom_hyp.
(* C15_rnum_range_slices_to_its_token : ... -> trace_rnum t i = Some (a, b) -> ...    the closing "1" *)
Example nv_C15_rnum_hyp : trace_rnum tT 2 = Some (14, 15). Proof. vm_compute. reflexivity. Qed.
Definition nv_C15_rnum := P.Props.C15.C15_rnum_range_slices_to_its_token sT tT 2 14 15 tT_fold_s nv_C15_rnum_hyp.

Ltac never := vm_compute; repeat split; try exact I; (let H := fresh in intro H; first [exact H | destruct H as [[? ?]|[? ?]]; discriminate]).
Ltac all_not_join := vm_compute; repeat (apply Forall_cons; [cbn; first [exact I | discriminate]|]); apply Forall_nil.

(* C15_tree_bond_cursor_both_directions : tfold trace0 h1 = Some t1 -> tstep t1 (RExtend bk k bc a b) = Some t2 ->
     tfold trace0 (h1 ++ RExtend bk k bc a b :: h2) = Some t -> ... (never_reclosed t2 h2 sid tid -> ...)
   the double bond to the oxygen in the branch: event 1 *)
Definition hx1 := firstn 1 evT.   Definition hx2 := skipn 2 evT.
Definition tx1 := fold_or0 hx1.   Definition tx2 := fold_or0 (firstn 2 evT).
Example nv_C15_tree_h1 : tfold trace0 hx1 = Some tx1. Proof. vm_compute. reflexivity. Qed.
Example nv_C15_tree_h2 : tstep tx1 (RExtend BK_Double (AK_Aliphatic Al_O) 2 3 4) = Some tx2. Proof. vm_compute. reflexivity. Qed.
Example nv_C15_tree_h3 : tfold trace0 (hx1 ++ RExtend BK_Double (AK_Aliphatic Al_O) 2 3 4 :: hx2) = Some tT. Proof. vm_compute. reflexivity. Qed.
Definition nv_C15_tree := P.Props.C15.C15_tree_bond_cursor_both_directions hx1 BK_Double (AK_Aliphatic Al_O) 2 3 4 hx2 tx1 tx2 tT
  nv_C15_tree_h1 nv_C15_tree_h2 nv_C15_tree_h3.
Example nv_C15_tree_inner : never_reclosed tx2 hx2 0 1. Proof. never. Qed.

(* C15_ring_open_iff_odd : tfold trace0 h = Some t -> (... <-> ...)     after event 6 rings 1 and 2 are open, ring 3 is not *)
Definition hOpen := firstn 7 evT.   Definition tOpen := fold_or0 hOpen.
Example nv_C15_open_hyp : tfold trace0 hOpen = Some tOpen. Proof. vm_compute. reflexivity. Qed.
Definition nv_C15_open := P.Props.C15.C15_ring_open_iff_odd hOpen tOpen 2%N nv_C15_open_hyp.
Example nv_C15_open_sides : oget (t_opens tOpen) 1%N <> None /\ jpar 1%N hOpen = true /\ oget (t_opens tOpen) 2%N <> None /\
  oget (t_opens tOpen) 3%N = None /\ jpar 3%N hOpen = false.
Proof. vm_compute. repeat split; discriminate. Qed.

(* C15_ring_bond_cursor_each_direction : tfold trace0 h1 = Some t1 -> oget (t_opens t1) r = None -> Forall (not_join r) hmid ->
     tfold trace0 (h1 ++ RJoin bk1 r bc1 a1 b1 :: hmid ++ RJoin bk2 r bc2 a2 b2 :: h2) = Some t -> ...
       (never_reclosed t3 h2 sid1 sid2 -> ... (sid1 <> sid2 -> ...))
   ring 1: events 4 and 9; in between ring 2 is opened; afterwards ring 2 is closed (on another pair of atoms) *)
Definition hr1 := firstn 4 evT.   Definition hrmid := firstn 4 (skipn 5 evT).   Definition hr2 := skipn 10 evT.
Definition tr1 := fold_or0 hr1.   Definition tr3 := fold_or0 (firstn 10 evT).
Example nv_C15_ring_h1 : tfold trace0 hr1 = Some tr1. Proof. vm_compute. reflexivity. Qed.
Example nv_C15_ring_h2 : oget (t_opens tr1) 1%N = None. Proof. vm_compute. reflexivity. Qed.
Example nv_C15_ring_h3 : Forall (not_join 1%N) hrmid. Proof. all_not_join. Qed.
Example nv_C15_ring_h4 : tfold trace0 (hr1 ++ RJoin BK_Double 1%N 6 7 8 :: hrmid ++ RJoin BK_Double 1%N 13 14 15 :: hr2) = Some tT.
Proof. vm_compute. reflexivity. Qed.
Definition nv_C15_ring := P.Props.C15.C15_ring_bond_cursor_each_direction hr1 hrmid hr2 BK_Double BK_Double 1%N 6 7 8 13 14 15 tr1 tT
  nv_C15_ring_h1 nv_C15_ring_h2 nv_C15_ring_h3 nv_C15_ring_h4.
(*   the existentials are sid1 = 2, sid2 = 5, t3 = tr3, and the inner hypotheses hold *)
Example nv_C15_ring_inner : hd_error (t_stack tr1) = Some 2 /\ hd_error (t_stack tr3) = Some 5 /\ never_reclosed tr3 hr2 2 5 /\ 2 <> 5.
Proof. split; [vm_compute; reflexivity|]. split; [vm_compute; reflexivity|]. split; [never | discriminate]. Qed.
Example nv_C15_ring_value : trace_bond tT 2 5 = Some 6 /\ trace_bond tT 5 2 = Some 13. Proof. vm_compute. split; reflexivity. Qed.

(* C15_ring_bond_cursors_in_the_input : tfold trace0 (r_events (read s)) = Some t ->
     r_events (read s) = h1 ++ RJoin bk1 r bc1 a1 b1 :: hmid ++ RJoin bk2 r bc2 a2 b2 :: h2 -> jpar r h1 = false -> Forall (not_join r) hmid -> ...
   ring 2: events 6 and 11 ("/2" ... "\2"); ring 1 is closed in between *)
Definition hd1 := firstn 6 evT.   Definition hdmid := firstn 4 (skipn 7 evT).
Example nv_C15_input_h2 : r_events (read sT) = hd1 ++ RJoin BK_Up 2%N 9 10 11 :: hdmid ++ RJoin BK_Down 2%N 16 17 18 :: [].
Proof. vm_compute. reflexivity. Qed.
Example nv_C15_input_h3 : jpar 2%N hd1 = false. Proof. vm_compute. reflexivity. Qed.
Example nv_C15_input_h4 : Forall (not_join 2%N) hdmid. Proof. all_not_join. Qed.
Definition nv_C15_input := P.Props.C15.C15_ring_bond_cursors_in_the_input sT tT hd1 BK_Up 2%N 9 10 11 hdmid BK_Down 16 17 18 []
  tT_fold_s nv_C15_input_h2 nv_C15_input_h3 nv_C15_input_h4.
Example nv_C15_input_value : trace_bond tT 3 6 = Some 9 /\ trace_bond tT 6 3 = Some 16 /\ nth_error sT 9 = Some 47%N /\ nth_error sT 16 = Some 92%N.
Proof. vm_compute. repeat split. Qed.

(* C15_unlinked_pair_maps_to_nothing : tfold trace0 h = Some t -> never_linked trace0 h x y -> ...    atoms 3 and 5: in two rings, not bonded *)
Example nv_C15_unlinked_hyp : never_linked trace0 evT 3 5. Proof. never. Qed.
Definition nv_C15_unlinked := P.Props.C15.C15_unlinked_pair_maps_to_nothing evT tT 3 5 tT_fold nv_C15_unlinked_hyp.
(* C15_bond_ids_past_the_end_map_to_nothing : tfold trace0 h = Some t -> length (atom_ranges h) <= x \/ length (atom_ranges h) <= y -> ... *)
Definition nv_C15_bond_past := P.Props.C15.C15_bond_ids_past_the_end_map_to_nothing evT tT 2 7 tT_fold (or_intror nv_C15_past_hyp).
(* C15_pop_changes_no_entry : tstep t (RPop d) = Some t' -> ...     the pop after the branch: event 2 *)
Example nv_C15_pop_hyp : tstep tx2 (RPop 1) = Some (fold_or0 (firstn 3 evT)). Proof. vm_compute. reflexivity. Qed.
Definition nv_C15_pop := P.Props.C15.C15_pop_changes_no_entry tx2 1 _ nv_C15_pop_hyp.

(* ================= C16 ================= *)
(* C16_unbracketed_unchanged : no hypotheses *)
(* C16_debracket_preserves_meaning : b < 256 -> b + hcount_of h <= 255 -> ... (any_field i c g m = true -> ...)
   [NH] with two single bonds becomes N; [C@@H] with three bonds keeps its brackets (inner hypothesis holds) *)
Local Open Scope N_scope.
Example nv_C16_hyp_N : 2 < 256 /\ 2 + hcount_of (Some VH_H1) <= 255. Proof. vm_compute. split; [reflexivity | discriminate]. Qed.
Example nv_C16_hyp_C : 3 < 256 /\ 3 + hcount_of (Some VH_H1) <= 255. Proof. vm_compute. split; [reflexivity | discriminate]. Qed.
Definition nv_C16_meaning_N := P.Props.C16.C16_debracket_preserves_meaning None (BS_Element El_N) None (Some VH_H1) None None 2
  (proj1 nv_C16_hyp_N) (proj2 nv_C16_hyp_N).
Definition nv_C16_meaning_C := P.Props.C16.C16_debracket_preserves_meaning None (BS_Element El_C) (Some Cf_TH2) (Some VH_H1) None None 3
  (proj1 nv_C16_hyp_C) (proj2 nv_C16_hyp_C).
Example nv_C16_values : debracket (AK_Bracket None (BS_Element El_N) None (Some VH_H1) None None) 2 = Some (AK_Aliphatic Al_N) /\
  any_field None (Some Cf_TH2) None None = true /\ any_field None None None None = false.
Proof. vm_compute. repeat split. Qed.
(* C16_same_hydrogens_in_molecule : b < 256 -> b + hcount_of h <= 255 -> debracket (AK_Bracket i s c h g m) b = Some k' -> order_sum bs = b -> ... *)
Definition bsN : list bond := [{| bk := BK_Elided; tid := 0 |}; {| bk := BK_Elided; tid := 2 |}].
Example nv_C16_mol_h3 : debracket (AK_Bracket None (BS_Element El_N) None (Some VH_H1) None None) 2 = Some (AK_Aliphatic Al_N). Proof. vm_compute. reflexivity. Qed.
Example nv_C16_mol_h4 : order_sum bsN = 2. Proof. vm_compute. reflexivity. Qed.
Definition nv_C16_mol := P.Props.C16.C16_same_hydrogens_in_molecule None (BS_Element El_N) None (Some VH_H1) None None 2 _ bsN
  (proj1 nv_C16_hyp_N) (proj2 nv_C16_hyp_N) nv_C16_mol_h3 nv_C16_mol_h4.

(* ================= C17 ================= *)
(* C17_hydrogens_follow_valence_model, C17_subvalence_from_published_targets, C17_standard_valences, C17_no_wraparound : no hypotheses *)
(* C17_charged_atoms_are_isoelectronic : targets_bracket s c <> [] -> ...      [N+] has the targets of carbon *)
Example nv_C17_iso_hyp : targets_bracket (BS_Element El_N) (Some Ch_One) <> []. Proof. vm_compute. discriminate. Qed.
Definition nv_C17_iso := P.Props.C17.C17_charged_atoms_are_isoelectronic (BS_Element El_N) (Some Ch_One) nv_C17_iso_hyp.
Example nv_C17_iso_value : targets_bracket (BS_Element El_N) (Some Ch_One) = [4]. Proof. vm_compute. reflexivity. Qed.
Local Close Scope N_scope.

(* ================= C18 ================= *)
(* C18_charge_into_inverse, C18_hcount_into_inverse, C18_rnum_value_inverse, C18_bond_kind : no hypotheses *)
Module C := P.Props.C18.
(* C18_charge_try_from_exact : -128 <= z <= 127 -> ...      one value in the charge range, one outside *)
Example z_m3 : (-128 <= -3 <= 127)%Z. Proof. lia. Qed.
Example z_99 : (-128 <= 99 <= 127)%Z. Proof. lia. Qed.
Definition nv_C18_charge_in := C.C18_charge_try_from_exact (-3)%Z z_m3.
Definition nv_C18_charge_out := C.C18_charge_try_from_exact 99%Z z_99.
(* C18_charge_injective : -128 <= z1 <= 127 -> -128 <= z2 <= 127 -> charge_of_i8 z1 = Some c -> charge_of_i8 z2 = Some c -> z1 = z2
   (the conclusion forces z1 = z2, so the only witnesses have equal integers) *)
Example nv_C18_charge_m3 : charge_of_i8 (-3)%Z = Some Ch_MinusThree. Proof. vm_compute. reflexivity. Qed.
Definition nv_C18_charge_inj := C.C18_charge_injective (-3)%Z (-3)%Z Ch_MinusThree z_m3 z_m3 nv_C18_charge_m3 nv_C18_charge_m3.
(* C18_hcount_try_from_exact : n < 256 -> ... *)
Example n4 : (4 < 256)%N. Proof. reflexivity. Qed.
Example n200 : (200 < 256)%N. Proof. reflexivity. Qed.
Definition nv_C18_hcount_in := C.C18_hcount_try_from_exact 4%N n4.
Definition nv_C18_hcount_out := C.C18_hcount_try_from_exact 200%N n200.
(* C18_rnum_try_from_exact, C18_rnum_range_injective : n < 65536 -> ... (inner: rnum_of_u16 n = Some r -> ...) *)
Example n42 : (42 < 65536)%N. Proof. reflexivity. Qed.
Example n40000 : (40000 < 65536)%N. Proof. reflexivity. Qed.
Definition nv_C18_rnum_in := C.C18_rnum_try_from_exact 42%N n42.
Definition nv_C18_rnum_out := C.C18_rnum_try_from_exact 40000%N n40000.
Definition nv_C18_rnum_range := C.C18_rnum_range_injective 42%N n42.
Example nv_C18_rnum_inner : rnum_of_u16 42%N = Some Rn_R42. Proof. vm_compute. reflexivity. Qed.
(* C18_number_try_from_exact : n < 65536 -> ... *)
Example n999 : (999 < 65536)%N. Proof. reflexivity. Qed.
Definition nv_C18_number_in := C.C18_number_try_from_exact 999%N n999.
Definition nv_C18_number_out := C.C18_number_try_from_exact 40000%N n40000.
(* C18_number_of_digit_strings : 1 <= len <= 5 -> v < 10 ^ N.of_nat len -> ...      "007" and "65536" *)
Example len3 : 1 <= 3 <= 5. Proof. lia. Qed.
Example len5 : 1 <= 5 <= 5. Proof. lia. Qed.
Example v7 : (7 < 10 ^ N.of_nat 3)%N. Proof. reflexivity. Qed.
Example v65536 : (65536 < 10 ^ N.of_nat 5)%N. Proof. reflexivity. Qed.
Definition nv_C18_digits_007 := C.C18_number_of_digit_strings 3 7%N len3 v7.
Definition nv_C18_digits_65536 := C.C18_number_of_digit_strings 5 65536%N len5 v65536.
(* C18_symbol_conversions : six clauses, four with a hypothesis; each hypothesis holds for some value *)
Example nv_C18_symbol_hyps :
  aliphatic_of_element El_Br = Some Al_Br /\ aliphatic_of_element El_Fe = None /\
  aromatic_of_bracket_aromatic BA_N = Some Ar_N /\ aromatic_of_bracket_aromatic BA_Se = None.
Proof. vm_compute. repeat split. Qed.
Definition nv_C18_symbol_1 := proj1 C.C18_symbol_conversions El_Br Al_Br (proj1 nv_C18_symbol_hyps).
Definition nv_C18_symbol_2 := proj1 (proj2 C.C18_symbol_conversions) El_Fe (proj1 (proj2 nv_C18_symbol_hyps)).
(* C18_text_shows_the_integer : last clause In p display_number_samples -> ... *)
Example nv_C18_sample : In (42%N, "42"%string) display_number_samples. Proof. vm_compute. auto. Qed.
Definition nv_C18_text := proj2 (proj2 (proj2 C.C18_text_shows_the_integer)) _ nv_C18_sample.
(* C18_number_of_probed_strings : In (s, r) number_of_string_probes -> ...       the first probe that parses to a number *)
Definition is_num (p : list N * option (option N)) : bool := match snd p with Some (Some _) => true | _ => false end.
Definition probeA : list N * option (option N) := match find is_num number_of_string_probes with Some p => p | None => ([], None) end.
Example nv_C18_probe_hyp : In (fst probeA, snd probeA) number_of_string_probes /\ is_num probeA = true.
Proof. rewrite <- surjective_pairing. apply (find_some is_num). vm_compute. reflexivity. Qed.
Definition nv_C18_probe := C.C18_number_of_probed_strings _ _ (proj1 nv_C18_probe_hyp).
Example nv_C18_probes_many : List.length number_of_string_probes = 1063. Proof. vm_compute. reflexivity. Qed.
(* C18_number_string_spec_in_range : number_string_spec s = Some v -> ... *)
Example nv_C18_spec_hyp : number_string_spec (str "013") = Some 13%N. Proof. vm_compute. reflexivity. Qed.
Definition nv_C18_spec := C.C18_number_string_spec_in_range (str "013") 13%N nv_C18_spec_hyp.

(* ================= summary =================
   Theorems of Props/C*.v and Props/EndToEnd.v WITHOUT hypotheses (pure universal statements, no witness needed):
     C03_kind_after_round_trip, C03_builder_adjustment, C04_tokens_are_the_documented_families, C04_reader_total,
     C05_reported_index_is_last_inspected_position, C05_token_error_positions_as_documented, C06_reader_total,
     C06_writer_on_any_string, C06_trace_on_any_string, C06_walk_sites_never_reached, C06_full_statement_refuted,
     C07_display_is_standard_spelling, C08_reader_conformant, C08_walk_conformant, C09_writing_ignores_shorthands,
     C14_written_text_ignores_shorthands, C15_reader_cursors_are_anchored, C15_trace_total_on_reader_streams,
     C16_unbracketed_unchanged, C17_hydrogens_follow_valence_model, C17_subvalence_from_published_targets,
     C17_standard_valences, C17_no_wraparound, C18_charge_into_inverse, C18_hcount_into_inverse, C18_rnum_value_inverse,
     C18_bond_kind, C19_call_depth_bounded_by_nesting.
   Equivalences (C04_accepts_exactly_the_documented_productions, C04_executable_recogniser_decides_the_language,
     C05_executable_recogniser_decides_viability, C06_inversion_panics_exactly_on_known_class,
     C10_denotation_join / _unmatched / _ok, C11_validation_is_well_formedness): an input on which the left side
     holds and (where there is one) an input on which it fails.
   Every other theorem is applied above (nv_* definitions) to a concrete input together with proofs of all its hypotheses. *)

Print Assumptions nv_C13_refines_close.
Print Assumptions nv_C13_bound.
Print Assumptions nv_C06_pool.
Print Assumptions nv_C15_ring.
Print Assumptions nv_C15_input.
Print Assumptions nv_C16_mol.
Print Assumptions nv_C18_probe.
