(* C12 — writing preserves every atom's substituent order. Statements only. *)
From Coq Require Import List NArith Bool.
Require Import P.Spec.Graph P.Spec.Roundtrip P.Model.Base P.Model.Walk P.Model.Builder P.Proofs.D0 P.Proofs.D1 P.Proofs.D2 P.Proofs.D7 P.Proofs.C12_Final P.Proofs.DfsOrderClosed.

(* every well-formed adjacency list that the traversal accepts (kinds outside C06's known class): feeding the
   traversal's events to the builder gives, at every atom (renamed by the visiting order phi), exactly the original
   bond list with the arrival bond moved to the front -- as lists, so ring closures, branches and chain successor are
   interleaved as listed *)
Theorem C12_substituent_order_preserved : forall g h, wf g = true -> safe_graph g -> walk g = (WOk, h) ->
  exists gh g', bld h = BOk g' /\ length g' = length g /\ NoDup (order gh) /\ (forall x, In x (order gh) <-> x < length g) /\
    forall x, x < length g -> nth_error g' (phi gh x) = Some {| akind := kind_final g gh x; bonds := map (rename gh) (arrival_first g gh x) |}.
Proof. exact C12_from_wf. Qed.
(* closed form: the rebuilt graph IS the specification's expected graph -- components start at the lowest-numbered unvisited
   atom, children are visited in list order (plain recursive depth-first search of Spec/Roundtrip.v), atom x becomes
   atom rank(x), its bond list is the original one with the bond to its parent moved to the front *)
Theorem C12_rebuilt_graph_closed_form : forall g h, wf g = true -> safe_graph g -> walk g = (WOk, h) -> bld h = BOk (expected_roundtrip g).
Proof. exact C12_closed_form. Qed.
Theorem C12_visiting_order_is_depth_first_in_list_order : forall g h, wf g = true -> safe_graph g -> walk g = (WOk, h) ->
  exists gh g',
    (bld h = BOk g' /\ length g' = length g /\ NoDup (order gh) /\ (forall x, In x (order gh) <-> x < length g) /\
     forall x, x < length g -> nth_error g' (phi gh x) = Some {| akind := kind_final g gh x; bonds := map (rename gh) (arrival_first g gh x) |}) /\
    map (fun x => (x, par gh x)) (order gh) = dfs_all g.
Proof. exact visiting_order_is_dfs. Qed.
Print Assumptions C12_substituent_order_preserved.
Print Assumptions C12_rebuilt_graph_closed_form.
Print Assumptions C12_visiting_order_is_depth_first_in_list_order.
