(* C13 — ring-closure numbers are recycled and never run out early. Statements only. *)
From Coq Require Import List NArith Bool.
Require Import P.Model.Base P.Model.Pool P.Proofs.PoolSpec P.Proofs.PoolReach.
Local Open Scope N_scope.

(* for every state reachable by any sequence of hits: a pair that is not open gets the smallest number >= 1 that no
   open closure carries and becomes open with it; an open pair (in either orientation) gets its own number back and
   the number becomes free *)
Theorem C13_pool_refines_smallest_free : forall p sid tid, reach p ->
  match lookup (borrowed p) (sid, tid) with
  | None =>
      (N.of_nat (length (borrowed p)) < 99 ->
       exists n p', hit p sid tid = POk n p' /\ min_free (borrowed p) n /\ borrowed p' = ((sid, tid), n) :: borrowed p /\ reach p')
  | Some r => exists p', hit p sid tid = POk r p' /\ borrowed p' = remove (borrowed p) (sid, tid) /\ reach p'
  end.
Proof. exact hit_refines. Qed.
Theorem C13_never_runs_out_early : forall p sid tid, reach p -> N.of_nat (length (borrowed p)) < 99 ->
  exists n p', hit p sid tid = POk n p' /\ n < 100 /\ 1 <= n.
Proof. exact hit_never_runs_out. Qed.
Theorem C13_new_number_bounded_by_open_count : forall b n, NoDup (nums b) -> min_free b n -> n <= N.of_nat (length b) + 1.
Proof. exact min_free_bound. Qed.

Print Assumptions C13_pool_refines_smallest_free.
Print Assumptions C13_never_runs_out_early.
Print Assumptions C13_new_number_bounded_by_open_count.
