(* Non-vacuity witnesses, part 2: the reader side (C02, C04, C05, C06, C07, C09, C10 second half, C19, EndToEnd).
   Witness strings:
     s1 = N[C@@H](C)C(=O)O.C1CC1        stereo centre with a hydrogen, branch, double bond, two components, a ring
     s2 = F/C=C/C1CC1[13CH2-:7]         directional bonds, a ring, isotope / hydrogens / charge / map number
   and, for the error theorems, strings with a misplaced parenthesis, an unfinished bracket atom, an unmatched ring
   digit, and a pair of atoms closed twice. *)
From Coq Require Import String List NArith Bool Arith Lia Permutation.
Import ListNotations.
Require Import P.Generated.Enums P.Spec.Values P.Generated.Tables P.Spec.Known P.Spec.Normal P.Spec.Events P.Spec.Graph P.Spec.Roundtrip P.Spec.Lang P.Spec.Denote
  P.Spec.BuildErrors P.Meta.Scan
  P.Model.Base P.Model.Token P.Model.Reader P.Model.Writer P.Model.Walk P.Model.Builder P.Model.Pool
  P.Checks.Token_defs P.Proofs.TokenFacts P.Proofs.BodyFacts P.Proofs.C09_Inverse P.Proofs.C09_Writer P.Proofs.C09_Final P.Proofs.BuilderMore
  P.Proofs.DenoteSym P.Proofs.DenoteFinal P.Proofs.C12_Final P.Proofs.WalkValues P.Proofs.C06 P.Proofs.PoolReach P.Proofs.ReaderDepth.
Require Import P.Props.NonVacuity1.
Require P.Spec.Grammar.
Require P.Props.C02 P.Props.C04 P.Props.C05 P.Props.C06 P.Props.C07 P.Props.C09 P.Props.C10 P.Props.C19 P.Props.EndToEnd.
Strategy opaque [P.Generated.Trees.tree_symbol P.Generated.Trees.tree_organic P.Generated.Trees.tree_configuration P.Generated.Trees.tree_charge P.Generated.Trees.tree_bond P.Generated.Trees.tree_rnum P.Generated.Trees.tree_hcount P.Generated.Trees.tree_isotope P.Generated.Trees.tree_map].

Definition s1 : list N := str "N[C@@H](C)C(=O)O.C1CC1".
Definition s2 : list N := str "F/C=C/C1CC1[13CH2-:7]".
Definition h1 : list ev := snd (rd s1).
Definition h2 : list ev := snd (rd s2).
Definition g1 : list atom := match bld h1 with BOk g => g | _ => [] end.
Definition g2 : list atom := match bld h2 with BOk g => g | _ => [] end.

Example s1_read : rd s1 = (VOk, h1). Proof. vm_compute. reflexivity. Qed.
Example s2_read : rd s2 = (VOk, h2). Proof. vm_compute. reflexivity. Qed.
Example s1_built : bld h1 = BOk g1. Proof. vm_compute. reflexivity. Qed.
Example s2_built : bld h2 = BOk g2. Proof. vm_compute. reflexivity. Qed.
(* the values are what one expects: 9 / 7 atoms, the stereo centre adjusted by the builder, the ring closed *)
Example h1_value : h1 =
  [ERoot (AK_Aliphatic Al_N); EExtend BK_Elided (AK_Bracket None (BS_Element El_C) (Some Cf_TH2) (Some VH_H1) None None);
   EExtend BK_Elided (AK_Aliphatic Al_C); EPop 1; EExtend BK_Elided (AK_Aliphatic Al_C); EExtend BK_Double (AK_Aliphatic Al_O);
   EPop 1; EExtend BK_Elided (AK_Aliphatic Al_O); ERoot (AK_Aliphatic Al_C); EJoin BK_Elided 1%N;
   EExtend BK_Elided (AK_Aliphatic Al_C); EExtend BK_Elided (AK_Aliphatic Al_C); EJoin BK_Elided 1%N].
Proof. vm_compute. reflexivity. Qed.
Example g1_value : List.length g1 = 9 /\
  nth_error g1 1 = Some (mkA (AK_Bracket None (BS_Element El_C) (Some Cf_TH1) (Some VH_H1) None None) [(BK_Elided,0); (BK_Elided,2); (BK_Elided,3)]) /\
  nth_error g1 6 = Some (mkA (AK_Aliphatic Al_C) [(BK_Elided,8); (BK_Elided,7)]).
Proof. vm_compute. repeat split. Qed.
Example g2_value : List.length g2 = 7 /\
  nth_error g2 1 = Some (mkA (AK_Aliphatic Al_C) [(BK_Down,0); (BK_Double,2)]) /\
  nth_error g2 6 = Some (mkA (AK_Bracket (Some 13%N) (BS_Element El_C) None (Some VH_H2) (Some Ch_MinusOne) (Some 7%N)) [(BK_Elided,5)]).
Proof. vm_compute. repeat split. Qed.
Example g1_safe : safe_graph g1. Proof. apply safe_graph_all. vm_compute. reflexivity. Qed.
Example g2_safe : safe_graph g2. Proof. apply safe_graph_all. vm_compute. reflexivity. Qed.
Example h1_conformant : conformant_history h1. Proof. apply conformant_history_b. vm_compute. reflexivity. Qed.
Example h2_conformant : conformant_history h2. Proof. apply conformant_history_b. vm_compute. reflexivity. Qed.
Example h1_okev : Forall okev h1. Proof. apply okev_all. vm_compute. reflexivity. Qed.
Example h2_okev : Forall okev h2. Proof. apply okev_all. vm_compute. reflexivity. Qed.

(* "no extended atom is of the known class", from a boolean check *)
Definition extb (e : ev) : bool := match e with EExtend _ k => negb (known_invert_panic k) | _ => true end.
Lemma no_known_all h : forallb extb h = true -> forall b k, In (EExtend b k) h -> known_invert_panic k = false.
Proof. intros H b k Hin. apply negb_true_iff. exact (proj1 (forallb_forall _ _) H _ Hin). Qed.
Example h1_no_known : forall b k, In (EExtend b k) h1 -> known_invert_panic k = false. Proof. apply no_known_all. vm_compute. reflexivity. Qed.
Example h2_no_known : forall b k, In (EExtend b k) h2 -> known_invert_panic k = false. Proof. apply no_known_all. vm_compute. reflexivity. Qed.

(* ================= C02 ================= *)
(* the syntax tree of s1 (branches, a dot, ring digits) *)
Definition k1 : atom_kind := match syntax_of h1 with Some (k, _) => k | None => AK_Star end.
Definition bd1 : body := match syntax_of h1 with Some (_, bd) => bd | None => BNil end.
Example bd1_syntax : syntax_of h1 = Some (k1, bd1) /\ h1 = ERoot k1 :: flat0 bd1. Proof. vm_compute. split; reflexivity. Qed.
Example bd1_nopanic : nopanic bd1. Proof. vm_compute. repeat split. Qed.
Example bd1_builds : bld (ERoot k1 :: flat0 bd1) = BOk g1. Proof. vm_compute. reflexivity. Qed.
(* C02_builder_is_denotation : nopanic bd -> ... *)
Definition nv_C02_denotation := P.Props.C02.C02_builder_is_denotation k1 bd1 bd1_nopanic.
Example nv_C02_denotation_value : denote k1 bd1 = DOk g1. Proof. vm_compute. reflexivity. Qed.
(* C02_atoms_are_the_atom_tokens : nopanic bd -> bld (ERoot k0 :: flat0 bd) = BOk g -> ... *)
Definition nv_C02_atoms := P.Props.C02.C02_atoms_are_the_atom_tokens k1 bd1 g1 bd1_nopanic bd1_builds.
(* C02_reading_builds_the_denotation : rd s = (VOk, h) -> (forall b k, In (EExtend b k) h -> known_invert_panic k = false) -> ... *)
Definition nv_C02_reading_1 := P.Props.C02.C02_reading_builds_the_denotation s1 h1 s1_read h1_no_known.
Definition nv_C02_reading_2 := P.Props.C02.C02_reading_builds_the_denotation s2 h2 s2_read h2_no_known.

(* ================= C04 ================= *)
(* C04_tokens_are_the_documented_families, C04_reader_total : no hypotheses *)
(* C04_every_written_history_is_accepted : conformant_history h -> Forall okev h -> ... *)
Definition nv_C04_written_1 := P.Props.C04.C04_every_written_history_is_accepted h1 h1_conformant h1_okev.
Definition nv_C04_written_A := P.Props.C04.C04_every_written_history_is_accepted hA hA_conformant hA_okev.
(* C04_accepted_strings_are_sentences : rd s = (VOk, h) -> ... *)
Definition nv_C04_sound_1 := P.Props.C04.C04_accepted_strings_are_sentences s1 h1 s1_read.
Definition nv_C04_sound_2 := P.Props.C04.C04_accepted_strings_are_sentences s2 h2 s2_read.
(* C04_sentences_are_accepted : Lang s -> ...     s1 is a sentence, by a derivation in the declarative grammar (no
   theorem about the reader is used) *)
Ltac in_table := vm_compute; repeat (first [left; reflexivity | right]).
Ltac organic := left; in_table.
Ltac nobond := left; reflexivity.
Ltac dig := split; vm_compute; discriminate.
Example s1_sentence : Lang s1.
Proof.
  unfold Lang, s1.
  apply (P.Spec.Lang.chain (str "N") (str "[C@@H](C)C(=O)O.C1CC1")); [organic|].
  apply (items_cons (str "[C@@H]") (str "(C)C(=O)O.C1CC1")).
  { apply (item_atom [] (str "[C@@H]")); [nobond|]. right; right.
    apply (bracket [] (str "C") (str "@@") (str "H") [] []).
    - left; reflexivity.
    - in_table.
    - right; in_table.
    - right; in_table.
    - left; reflexivity.
    - left; reflexivity. }
  apply (items_cons (str "(C)") (str "C(=O)O.C1CC1")).
  { apply (item_branch [] (str "C")); [right; nobond|].
    apply (P.Spec.Lang.chain (str "C") []); [organic | apply items_nil]. }
  apply (items_cons (str "C") (str "(=O)O.C1CC1")).
  { apply (item_atom [] (str "C")); [nobond | organic]. }
  apply (items_cons (str "(=O)") (str "O.C1CC1")).
  { apply (item_branch (str "=") (str "O")); [right; right; in_table|].
    apply (P.Spec.Lang.chain (str "O") []); [organic | apply items_nil]. }
  apply (items_cons (str "O") (str ".C1CC1")).
  { apply (item_atom [] (str "O")); [nobond | organic]. }
  apply (items_cons (str ".C") (str "1CC1")).
  { apply (item_dot (str "C")). organic. }
  apply (items_cons (str "1") (str "CC1")).
  { apply (item_ring [] (str "1")); [nobond|]. left. exists 49%N. split; [reflexivity | dig]. }
  apply (items_cons (str "C") (str "C1")).
  { apply (item_atom [] (str "C")); [nobond | organic]. }
  apply (items_cons (str "C") (str "1")).
  { apply (item_atom [] (str "C")); [nobond | organic]. }
  apply (items_cons (str "1") []).
  { apply (item_ring [] (str "1")); [nobond|]. left. exists 49%N. split; [reflexivity | dig]. }
  apply items_nil.
Qed.
Definition nv_C04_complete := P.Props.C04.C04_sentences_are_accepted s1 s1_sentence.
(* C04_accepts_exactly_the_documented_productions (an equivalence): its left side holds for s1 and s2 and fails for a
   string with a misplaced parenthesis *)
Definition sChar : list N := str "N[C@@H](C)C(=O)O.C1C)C1".
Example nv_C04_iff_sides : fst (rd s1) = VOk /\ fst (rd s2) = VOk /\ fst (rd sChar) <> VOk.
Proof. vm_compute. repeat split. discriminate. Qed.
(* C04_executable_recogniser_decides_the_language (an equivalence): left side true on s1, s2, false on sChar *)
Example nv_C04_recogniser_sides :
  P.Spec.Grammar.accepts_spec s1 = true /\ P.Spec.Grammar.accepts_spec s2 = true /\ P.Spec.Grammar.accepts_spec sChar = false.
Proof. vm_compute. repeat split. Qed.

(* ================= C05 ================= *)
(* C05_reported_index_is_last_inspected_position, C05_token_error_positions_as_documented : no hypotheses *)
(* C05_character_is_first_non_viable_prefix : rd s = (VChar i, h) -> ...     the ")" at index 20 closes nothing *)
Example nv_C05_char_hyp : rd sChar = (VChar 20, snd (rd sChar)). Proof. vm_compute. reflexivity. Qed.
Definition nv_C05_char := P.Props.C05.C05_character_is_first_non_viable_prefix sChar 20 _ nv_C05_char_hyp.
(*   ... and a character that no token can start, inside a bracket atom *)
Definition sChar2 : list N := str "F/C=C/C1CC1[13CH2-:x]".
Example nv_C05_char2_hyp : rd sChar2 = (VChar 19, snd (rd sChar2)). Proof. vm_compute. reflexivity. Qed.
Definition nv_C05_char2 := P.Props.C05.C05_character_is_first_non_viable_prefix sChar2 19 _ nv_C05_char2_hyp.
(* C05_end_of_line_is_viable_incomplete_input : rd s = (VEol, h) -> ...     an unfinished bracket atom, an open branch *)
Definition sEol : list N := str "F/C=C/C1CC1[13CH2-".
Definition sEol2 : list N := str "N[C@@H](C)C(=O".
Example nv_C05_eol_hyp : rd sEol = (VEol, snd (rd sEol)). Proof. vm_compute. reflexivity. Qed.
Example nv_C05_eol2_hyp : rd sEol2 = (VEol, snd (rd sEol2)). Proof. vm_compute. reflexivity. Qed.
Definition nv_C05_eol := P.Props.C05.C05_end_of_line_is_viable_incomplete_input sEol _ nv_C05_eol_hyp.
Definition nv_C05_eol2 := P.Props.C05.C05_end_of_line_is_viable_incomplete_input sEol2 _ nv_C05_eol2_hyp.
(* C05_executable_recogniser_decides_viability (an equivalence): left side true on the unfinished inputs, false on the
   prefix of sChar that includes the offending character *)
Example nv_C05_viable_sides :
  P.Spec.Grammar.viable_spec sEol = true /\ P.Spec.Grammar.viable_spec sEol2 = true /\
  P.Spec.Grammar.viable_spec (firstn 20 sChar) = true /\ P.Spec.Grammar.viable_spec (firstn 21 sChar) = false.
Proof. vm_compute. repeat split. Qed.

(* ================= C06 ================= *)
(* C06_reader_total, C06_writer_on_any_string, C06_trace_on_any_string, C06_walk_sites_never_reached,
   C06_full_statement_refuted : no hypotheses.   C06_pool_panics_only_at_the_limit : see NonVacuity3.v *)
(* C06_builder_outside_known_class : conformant h = true -> no_known_kind h -> ... *)
Example h1_conformant_b : conformant h1 = true. Proof. vm_compute. reflexivity. Qed.
Definition nv_C06_builder := P.Props.C06.C06_builder_outside_known_class h1 h1_conformant_b h1_no_known.
Definition nv_C06_builder_A := P.Props.C06.C06_builder_outside_known_class hA hA_conformant_b (no_known_all hA eq_refl).
(* C06_builder_on_any_string_outside_known_class : no_known_kind (snd (rd s)) -> ... *)
Definition nv_C06_builder_string := P.Props.C06.C06_builder_on_any_string_outside_known_class s2 h2_no_known.
(* C06_inversion_panics_exactly_on_known_class (an equivalence): both sides hold for [Pt@SP1H], both fail for [C@@H] *)
Definition kPt : atom_kind := AK_Bracket None (BS_Element El_Pt) (Some Cf_SP1) (Some VH_H1) None None.
Definition kCH : atom_kind := AK_Bracket None (BS_Element El_C) (Some Cf_TH2) (Some VH_H1) None None.
Example nv_C06_inversion_sides :
  invert kPt = KPanic /\ known_invert_panic kPt = true /\ invert kCH <> KPanic /\ known_invert_panic kCH = false.
Proof. vm_compute. repeat split. discriminate. Qed.

(* ================= C07 ================= *)
(* C07_display_is_standard_spelling : no hypotheses *)
(* C07_spellings_injective_up_to_shorthands : seven implications "same spelling -> same value (up to nk_)".  For the
   two shorthand clauses the hypothesis holds for two DIFFERENT values; for the other five the conclusion is a = b, so
   the hypothesis can only hold for equal values (that is the content of the clause). *)
Example nv_C07_shorthand_cfg :
  opt_str display_configuration (Some Cf_TH1) = opt_str display_configuration (Some Cf_AL1) /\ Some Cf_TH1 <> Some Cf_AL1.
Proof. split; [vm_compute; reflexivity | discriminate]. Qed.
Example nv_C07_shorthand_h :
  opt_str display_virtual_hydrogen None = opt_str display_virtual_hydrogen (Some VH_H0) /\ None <> Some VH_H0.
Proof. split; [vm_compute; reflexivity | discriminate]. Qed.
(* C07_atom_reads_back_in_position : wf_numbers k -> (bracket: True | else: follows x) -> ...
   a bracket atom with every field, followed by a branch; an organic atom followed by a bond symbol *)
Definition k13 : atom_kind := AK_Bracket (Some 13%N) (BS_Element El_C) (Some Cf_TH2) (Some VH_H2) (Some Ch_MinusOne) (Some 7%N).
Example k13_numbers : wf_numbers k13. Proof. apply okkb_sound. vm_compute. reflexivity. Qed.
Definition nv_C07_atom_bracket := P.Props.C07.C07_atom_reads_back_in_position k13 (str "(C)N") k13_numbers I.
Example nv_C07_atom_bracket_text : pp_kind k13 = str "[13C@@H2-:7]". Proof. vm_compute. reflexivity. Qed.
Ltac in_list := vm_compute; repeat (first [left; reflexivity | right]).
Example follows_bond : follows (str "=O"). Proof. right. exists 61%N, (str "O"). split; [reflexivity | in_list]. Qed.
Example follows_close : follows (str ")C"). Proof. right. exists 41%N, (str "C"). split; [reflexivity | in_list]. Qed.
Definition nv_C07_atom_organic := P.Props.C07.C07_atom_reads_back_in_position (AK_Aliphatic Al_Cl) (str "=O") I follows_bond.
Definition nv_C07_atom_star := P.Props.C07.C07_atom_reads_back_in_position AK_Star (str ")C") I follows_close.
(* C07_bond_reads_back_in_position : hd_in x (atom_starts ++ digit_chars ++ [37]) -> ...    "/" before "[", "#" before "%12" *)
Example hd_bracket : hd_in (str "[C@@H]") (atom_starts ++ digit_chars ++ [37%N]).
Proof. exists 91%N, (str "C@@H]"). split; [reflexivity | in_list]. Qed.
Example hd_percent : hd_in (str "%12") (atom_starts ++ digit_chars ++ [37%N]).
Proof. exists 37%N, (str "12"). split; [reflexivity | in_list]. Qed.
Definition nv_C07_bond_up := P.Props.C07.C07_bond_reads_back_in_position BK_Up (str "[C@@H]") hd_bracket.
Definition nv_C07_bond_triple := P.Props.C07.C07_bond_reads_back_in_position BK_Triple (str "%12") hd_percent.
(* C07_rnum_reads_back_in_position : follows x -> ...      "%12" before "=O", "7" before ")" *)
Definition nv_C07_rnum_12 := P.Props.C07.C07_rnum_reads_back_in_position Rn_R12 (str "=O") follows_bond.
Definition nv_C07_rnum_7 := P.Props.C07.C07_rnum_reads_back_in_position Rn_R7 (str ")C") follows_close.

(* ================= C09 ================= *)
(* C09_writing_ignores_shorthands : no hypotheses *)
(* C09_writer_reader_inverse, C09_rewriting_reproduces_the_text : conformant_history h -> Forall okev h -> ... *)
Definition nv_C09_inverse_1 := P.Props.C09.C09_writer_reader_inverse h1 h1_conformant h1_okev.
Definition nv_C09_inverse_2 := P.Props.C09.C09_writer_reader_inverse h2 h2_conformant h2_okev.
Definition nv_C09_inverse_A := P.Props.C09.C09_writer_reader_inverse hA hA_conformant hA_okev.
Definition nv_C09_rewrite_1 := P.Props.C09.C09_rewriting_reproduces_the_text h1 h1_conformant h1_okev.
Definition nv_C09_rewrite_A := P.Props.C09.C09_rewriting_reproduces_the_text hA hA_conformant hA_okev.
(* the text is the expected one: s1 itself; s2 itself *)
Example nv_C09_text_value : wr h1 = Some s1 /\ rd s1 = (VOk, map nkev h1) /\ wr h2 = Some s2 /\ rd s2 = (VOk, map nkev h2).
Proof. vm_compute. repeat split. Qed.
(* C09_writer_total_on_conformant_histories : conformant_history h -> ...    also a history that is NOT a reader's:
   values out of range (isotope 5000, ring number 250), which the writer still prints *)
Definition hBig : list ev :=
  [ERoot (AK_Bracket (Some 5000%N) (BS_Element El_U) None None None None); EJoin BK_Triple 250%N;
   EExtend BK_Aromatic (AK_Aromatic Ar_C); EExtend BK_Elided AK_Star; EPop 2; EJoin BK_Elided 250%N].
Example hBig_conformant : conformant_history hBig. Proof. apply conformant_history_b. vm_compute. reflexivity. Qed.
Definition nv_C09_total_big := P.Props.C09.C09_writer_total_on_conformant_histories hBig hBig_conformant.
Definition nv_C09_total_1 := P.Props.C09.C09_writer_total_on_conformant_histories h1 h1_conformant.

(* ================= C10, second half ================= *)
(* C10_build_errors_are_real : rd s = (VOk, h) -> (forall b k, In (EExtend b k) h -> known_invert_panic k = false) -> ...
   one accepted string for each of the three outcomes: builds; three unmatched ring digits; a pair of atoms closed twice *)
Definition sUn : list N := str "C1CC(N2)C3".
Definition sJoin : list N := str "C12CC12".
Definition sRing : list N := str "C1CC=1C/2CC\2".
Definition hUn := snd (rd sUn).   Definition hJoin := snd (rd sJoin).   Definition hRing := snd (rd sRing).
Example sUn_read : rd sUn = (VOk, hUn). Proof. vm_compute. reflexivity. Qed.
Example sJoin_read : rd sJoin = (VOk, hJoin). Proof. vm_compute. reflexivity. Qed.
Example sRing_read : rd sRing = (VOk, hRing). Proof. vm_compute. reflexivity. Qed.
Definition nv_C10_errors_ok := P.Props.C10.C10_build_errors_are_real s1 h1 s1_read h1_no_known.
Definition nv_C10_errors_ring := P.Props.C10.C10_build_errors_are_real sRing hRing sRing_read (no_known_all hRing eq_refl).
Definition nv_C10_errors_unmatched := P.Props.C10.C10_build_errors_are_real sUn hUn sUn_read (no_known_all hUn eq_refl).
Definition nv_C10_errors_join := P.Props.C10.C10_build_errors_are_real sJoin hJoin sJoin_read (no_known_all hJoin eq_refl).
Example nv_C10_errors_outcomes : bld hUn = BErr (BRnum 0) /\ bld hJoin = BErr (Builder.BJoin 2 0) /\ exists g, bld hRing = BOk g.
Proof. split; [|split]; [vm_compute; reflexivity | vm_compute; reflexivity | eexists; vm_compute; reflexivity]. Qed.
(* the three equivalences on the denotation: the left side of each holds for one of the strings *)
Definition syn_k (h : list ev) : atom_kind := match syntax_of h with Some (k, _) => k | None => AK_Star end.
Definition syn_bd (h : list ev) : body := match syntax_of h with Some (_, bd) => bd | None => BNil end.
(* C10_denotation_join *)
Example nv_C10_join_side : denote (syn_k hJoin) (syn_bd hJoin) = DJoin 2 0. Proof. vm_compute. reflexivity. Qed.
(* C10_denotation_unmatched *)
Example nv_C10_unmatched_side : denote (syn_k hUn) (syn_bd hUn) = DUnmatched [2; 1; 0]. Proof. vm_compute. reflexivity. Qed.
(* C10_denotation_ok *)
Example nv_C10_ok_side : exists g, denote (syn_k hRing) (syn_bd hRing) = DOk g. Proof. eexists. vm_compute. reflexivity. Qed.
(* C10_closure_decided : (forall i t, nth_error rg i = Some t -> fst (fst (fst t)) = i) -> closure rg i a0 b0 j a b -> ...
   the ring tokens of C1CC=1C/2CC\2; the closure is the pair of tokens "/2" (token 2, on atom 3) and "\2" (token 3, on atom 5) *)
Definition rgRing : list ringocc := ring_tokens (syn_bd hRing).
Definition treeRing : list (nat * nat) := tree_bonds (syn_bd hRing).
Example rgRing_value : rgRing = [(0, 0, 1%N, BK_Elided); (1, 2, 1%N, BK_Double); (2, 3, 2%N, BK_Up); (3, 5, 2%N, BK_Down)].
Proof. vm_compute. reflexivity. Qed.
Example rgRing_indexed : forall i t, nth_error rgRing i = Some t -> fst (fst (fst t)) = i.
Proof.
  rewrite rgRing_value. intros i t H.
  destruct i as [|[|[|[|i]]]]; cbn in H; try (inversion H; reflexivity). destruct i; discriminate.
Qed.
Example rgRing_closure : closure rgRing 2 3 BK_Up 3 5 BK_Down.
Proof.
  exists 2%N. rewrite rgRing_value. unfold token, rank.
  split; [reflexivity|]. split; [reflexivity|]. split; [lia|]. split; [exists 0; reflexivity | reflexivity].
Qed.
Definition nv_C10_closure := P.Props.C10.C10_closure_decided rgRing treeRing rgRing_indexed 3 2 3 BK_Up 5 BK_Down rgRing_closure.

(* ================= C19 ================= *)
(* C19_call_depth_bounded_by_nesting : no hypotheses *)
(* C19_no_parentheses_no_recursion : nesting s = 0 -> ...    two rings, directional bonds, a dot, a bracket atom; no parenthesis *)
Definition sFlat : list N := str "C1CC=1C/2CC\2.[Na+]".
Example nv_C19_flat_hyp : nesting sFlat = 0. Proof. vm_compute. reflexivity. Qed.
Definition nv_C19_flat := P.Props.C19.C19_no_parentheses_no_recursion sFlat nv_C19_flat_hyp.
(* (the bound of the first theorem is attained on s1: one level of parentheses, depth two) *)
Example nv_C19_depth_value : nesting s1 = 1 /\ r_depth (read s1) = 2 /\ r_depth (read sFlat) = 1. Proof. vm_compute. repeat split. Qed.

(* ================= EndToEnd ================= *)
Module E := P.Props.EndToEnd.
(* E2E_reader_events_in_range : rd s = (v, h) -> ...      an accepted string and a refused one *)
Definition nv_E2E_range_1 := E.E2E_reader_events_in_range s1 h1 VOk s1_read.
Definition nv_E2E_range_err := E.E2E_reader_events_in_range sChar _ (VChar 20) nv_C05_char_hyp.
(* E2E_accepted_text_normalises, E2E_normal_form_is_stable : rd s = (VOk, h) -> ...
   (the second has an inner hypothesis rd t = (VOk, h') on the normal form t, which its first two conjuncts supply)
   sShort is not in normal form: explicit single bond, %01 for ring 1, H1, charge ++, a leading zero *)
Definition sShort : list N := str "C-C%01CC%01[NH1++].[012CH3:07]".
Definition hShort := snd (rd sShort).
Example sShort_read : rd sShort = (VOk, hShort). Proof. vm_compute. reflexivity. Qed.
Definition nv_E2E_normalises_1 := E.E2E_accepted_text_normalises s1 h1 s1_read.
Definition nv_E2E_normalises_short := E.E2E_accepted_text_normalises sShort hShort sShort_read.
Definition nv_E2E_stable_2 := E.E2E_normal_form_is_stable s2 h2 s2_read.
Definition nv_E2E_stable_short := E.E2E_normal_form_is_stable sShort hShort sShort_read.
Definition tShort : list N := match wr hShort with Some t => t | None => [] end.
Example nv_E2E_normal_form_value : wr hShort = Some tShort /\ tShort <> sShort /\ rd tShort = (VOk, map nkev hShort) /\
  wr (map nkev hShort) = Some tShort.
Proof. vm_compute. repeat split. discriminate. Qed.
(* E2E_built_graph_in_range : Forall okev h -> bld h = BOk g -> ... *)
Definition nv_E2E_built_range_2 := E.E2E_built_graph_in_range h2 g2 h2_okev s2_built.
Definition nv_E2E_built_range_A := E.E2E_built_graph_in_range hA gB hA_okev hA_builds.
(* E2E_accepted_graph_is_wellformed : rd s = (VOk, h) -> bld h = BOk g -> ... *)
Definition nv_E2E_wellformed_1 := E.E2E_accepted_graph_is_wellformed s1 h1 g1 s1_read s1_built.
Definition nv_E2E_wellformed_2 := E.E2E_accepted_graph_is_wellformed s2 h2 g2 s2_read s2_built.
(* E2E_pipeline : rd s = (VOk, h) -> bld h = BOk g -> safe_graph g -> ... *)
Definition nv_E2E_pipeline_1 := E.E2E_pipeline s1 h1 g1 s1_read s1_built g1_safe.
Definition nv_E2E_pipeline_2 := E.E2E_pipeline s2 h2 g2 s2_read s2_built g2_safe.
(*   ... the right-hand disjunct is the one that holds, with the expected values *)
Definition w1 : list ev := snd (walk g1).
Definition w2 : list ev := snd (walk g2).
Example g1_walk : walk g1 = (WOk, w1). Proof. vm_compute. reflexivity. Qed.
Example g2_walk : walk g2 = (WOk, w2). Proof. vm_compute. reflexivity. Qed.
(* the traversal lists a ring closure before the chain successor where the reader stored it first, so the text differs *)
Definition t1 : list N := str "N[C@@H](C)C(=O)O.C(CC1)1".
Definition t2 : list N := str "F/C=C/C(C(C1)[13CH2-:7])1".
Example w1_text : wr w1 = Some t1. Proof. vm_compute. reflexivity. Qed.
Example w2_text : wr w2 = Some t2. Proof. vm_compute. reflexivity. Qed.
(* E2E_pipeline_output_is_fixed_point : rd s = (VOk, h) -> bld h = BOk g -> safe_graph g -> walk g = (WOk, h2) -> wr h2 = Some t -> ... *)
Definition nv_E2E_fixed_1 := E.E2E_pipeline_output_is_fixed_point s1 h1 g1 w1 t1 s1_read s1_built g1_safe g1_walk w1_text.
Definition nv_E2E_fixed_2 := E.E2E_pipeline_output_is_fixed_point s2 h2 g2 w2 t2 s2_read s2_built g2_safe g2_walk w2_text.
(* E2E_pipeline_preserves_constitution : rd s = (VOk, h) -> bld h = BOk g -> safe_graph g -> walk g = (WOk, h2) -> ... *)
Definition nv_E2E_constitution_1 := E.E2E_pipeline_preserves_constitution s1 h1 g1 w1 s1_read s1_built g1_safe g1_walk.
Definition nv_E2E_constitution_2 := E.E2E_pipeline_preserves_constitution s2 h2 g2 w2 s2_read s2_built g2_safe g2_walk.
(* in both cases the pipeline's text (t1, t2) differs from the input string, and reading it again gives a graph
   numbered differently from g1 / g2: the fixed-point and constitution theorems are exercised on a non-identity renaming *)
Example nv_E2E_texts_differ : t1 <> s1 /\ t2 <> s2. Proof. split; vm_compute; discriminate. Qed.

Print Assumptions nv_C02_reading_1.
Print Assumptions s1_sentence.
Print Assumptions nv_C05_char.
Print Assumptions nv_C10_closure.
Print Assumptions nv_C10_errors_join.
Print Assumptions nv_E2E_pipeline_1.
Print Assumptions nv_E2E_fixed_2.
