(* C10 — a successful build is a well-formed simple graph; build errors are real. Statements only. *)
From Coq Require Import List NArith Bool.
Require Import P.Spec.Events P.Spec.Graph P.Model.Base P.Model.Walk P.Model.Builder P.Proofs.BuilderWf P.Proofs.C12_Final.

(* every event history on which the builder succeeds: no self bond, no pair bonded twice, every bond on both ends with
   mutually reversed kinds, all targets in range *)
Theorem C10_successful_build_is_simple_graph : forall h g, conformant h = true -> bld h = BOk g -> wf g = true.
Proof. exact build_ok_is_simple. Qed.
(* ... so the traversal accepts it (up to the panic classes of C06) *)
Theorem C10_built_graph_is_accepted_by_traversal : forall h g, conformant h = true -> bld h = BOk g -> safe_graph g ->
  fst (walk g) = WOk \/ fst (walk g) = WPanic 3.
Proof. intros h g Hc Hb Hs. apply wf_accepted; [exact (build_ok_is_simple h g Hc Hb) | exact Hs]. Qed.
(* one atom per root/extend event *)
Theorem C10_one_atom_per_atom_event : forall h g, bld h = BOk g -> length g = length (filter is_new h).
Proof. exact build_ok_length. Qed.

Print Assumptions C10_successful_build_is_simple_graph.
Print Assumptions C10_built_graph_is_accepted_by_traversal.
Print Assumptions C10_one_atom_per_atom_event.
