(* C10 — a successful build is a well-formed simple graph; build errors are real. Statements only. *)
From Coq Require Import List NArith Bool.
Require Import P.Spec.Events P.Spec.Graph P.Model.Base P.Model.Walk P.Model.Builder P.Proofs.BuilderWf P.Proofs.C12_Final.
Import ListNotations.
Require Import P.Generated.Trees P.Spec.Values P.Model.Reader P.Spec.Known
  P.Proofs.C09_Inverse P.Proofs.DenoteSym P.Spec.Denote P.Spec.BuildErrors P.Proofs.BuildErrorsInv P.Proofs.BuildErrors.
Strategy opaque [tree_symbol tree_organic tree_configuration tree_charge tree_bond tree_rnum tree_hcount tree_isotope tree_map].

(* every event history on which the builder succeeds: no self bond, no pair bonded twice, every bond on both ends with
   mutually reversed kinds, all targets in range *)
Theorem C10_successful_build_is_simple_graph : forall h g, conformant h = true -> bld h = BOk g -> wf g = true.
Proof. exact build_ok_is_simple. Qed.
(* ... so the traversal accepts it (up to the panic classes of C06) *)
Theorem C10_built_graph_is_accepted_by_traversal : forall h g, conformant h = true -> bld h = BOk g -> safe_graph g ->
  fst (walk g) = WOk \/ fst (walk g) = WPanic 3.
Proof. intros h g Hc Hb Hs. apply wf_accepted; [exact (build_ok_is_simple h g Hc Hb) | exact Hs]. Qed.
(* one atom per root/extend event *)
Theorem C10_one_atom_per_atom_event : forall h g, bld h = BOk g -> length g = length (filter is_new h).
Proof. exact build_ok_length. Qed.

(* ---- second half: build errors are exactly the classified defects (declarative vocabulary: Spec/BuildErrors.v:
   closure, unmatched, bad_closure (self / tree bond / earlier successful closure / irreconcilable kinds), first_bad_closure) ---- *)
(* for every accepted string (atom kinds outside the known panic class of C06): the builder reports atoms (x, y) exactly
   when the first bad closure is completed on x and was opened on y; it reports a ring token only if no closure is bad
   and that token is unmatched, and it reports some token exactly when no closure is bad and some token is unmatched;
   it succeeds exactly when no closure is bad and no token is unmatched; it does not panic *)
Theorem C10_build_errors_are_real : forall s h, rd s = (VOk, h) ->
  (forall b k, In (EExtend b k) h -> known_invert_panic k = false) ->
  exists k0 bd, syntax_of h = Some (k0, bd) /\ h = ERoot k0 :: flat0 bd /\
    let rg := ring_tokens bd in let tree := tree_bonds bd in
    (forall x y, bld h = BErr (Builder.BJoin x y) <-> exists j, first_bad_closure rg tree j x y) /\
    (forall rid, bld h = BErr (BRnum rid) -> no_bad_closure rg tree /\ unmatched rg rid) /\
    ((exists rid, bld h = BErr (BRnum rid)) <-> no_bad_closure rg tree /\ exists i, unmatched rg i) /\
    ((exists g, bld h = BOk g) <-> no_bad_closure rg tree /\ forall i, ~ unmatched rg i) /\
    bld h <> BPanic.
Proof. exact reading_build_errors_are_real. Qed.

(* the same three-way reading of the denotation itself *)
Theorem C10_denotation_join : forall k0 bd a a0,
  denote k0 bd = DJoin a a0 <-> exists j, first_bad_closure (ring_tokens bd) (tree_bonds bd) j a a0.
Proof. exact denote_join_iff. Qed.
Theorem C10_denotation_unmatched : forall k0 bd occs,
  denote k0 bd = DUnmatched occs <->
  no_bad_closure (ring_tokens bd) (tree_bonds bd) /\ occs <> [] /\ decreasing occs /\ forall i, In i occs <-> unmatched (ring_tokens bd) i.
Proof. exact denote_unmatched_iff. Qed.
Theorem C10_denotation_ok : forall k0 bd,
  (exists g, denote k0 bd = DOk g) <-> no_bad_closure (ring_tokens bd) (tree_bonds bd) /\ forall i, ~ unmatched (ring_tokens bd) i.
Proof. exact denote_ok_iff. Qed.
(* every closure either makes its bond or is bad, never both *)
Theorem C10_closure_decided : forall rg tree, (forall i t, nth_error rg i = Some t -> fst (fst (fst t)) = i) ->
  forall j i a0 b0 a b, closure rg i a0 b0 j a b ->
  (makes_bond rg tree j \/ bad_closure rg tree j) /\ ~ (makes_bond rg tree j /\ bad_closure rg tree j).
Proof. exact closure_decided. Qed.

Print Assumptions C10_successful_build_is_simple_graph.
Print Assumptions C10_built_graph_is_accepted_by_traversal.
Print Assumptions C10_one_atom_per_atom_event.
Print Assumptions C10_build_errors_are_real.
Print Assumptions C10_denotation_join.
Print Assumptions C10_denotation_unmatched.
Print Assumptions C10_denotation_ok.
Print Assumptions C10_closure_decided.
