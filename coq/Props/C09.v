(* C09 — the string writer and the reader are mutually inverse on event histories. Statements only. *)
From Coq Require Import List NArith Bool.
Import ListNotations.
Require Import P.Spec.Values P.Spec.Normal P.Spec.Events P.Model.Base P.Model.Reader P.Model.Writer P.Proofs.BodyFacts P.Proofs.C09_Writer P.Proofs.C09_Final.

(* every non-empty protocol-conformant history whose values are in range (isotope and map below 1000, ring numbers
   below 100: what the feature types can hold, C18): the text is accepted and the reader replays exactly the same
   calls, with the same kinds (up to the documented shorthands), bond kinds, ring numbers and pop depths *)
Theorem C09_writer_reader_inverse : forall h, conformant_history h -> Forall okev h ->
  exists text, wr h = Some text /\ rd text = (VOk, map nkev h).
Proof. exact C09_inverse. Qed.
Theorem C09_rewriting_reproduces_the_text : forall h, conformant_history h -> Forall okev h ->
  exists text h', wr h = Some text /\ rd text = (VOk, h') /\ wr h' = Some text.
Proof. exact C09_rewrite_fixed_point. Qed.
Theorem C09_writer_total_on_conformant_histories : forall h, conformant_history h -> exists text, wr h = Some text.
Proof. exact writer_total. Qed.
Theorem C09_writing_ignores_shorthands : forall h, wr (map nkev h) = wr h.
Proof. exact wr_nk. Qed.

Print Assumptions C09_writer_reader_inverse.
Print Assumptions C09_rewriting_reproduces_the_text.
Print Assumptions C09_writer_total_on_conformant_histories.
Print Assumptions C09_writing_ignores_shorthands.
