(* C06 — no input makes the library panic, overflow or abort. Statements only.
   The full statement is refuted on the faithful model by two known findings (F14: unimplemented inversion for a
   non-tetrahedral configuration with a virtual hydrogen; F15: more than 99 closures open at once); everything
   outside those classes is proved panic-free. *)
From Coq Require Import List NArith Bool.
Import ListNotations.
Require Import P.Spec.Values P.Spec.Events P.Spec.Known P.Model.Base P.Model.Reader P.Model.Trace P.Model.Writer P.Model.Builder P.Model.Pool P.Model.Walk
  P.Proofs.PoolReach P.Proofs.WalkPanics P.Proofs.C06.

(* reading any string: no panic, no fuel exhaustion (the loops terminate) *)
Theorem C06_reader_total : forall s : list N, fst (rd s) <> VPanic /\ fst (rd s) <> VFuel.
Proof. exact P.Proofs.ReaderSafe.reader_safe. Qed.
(* ... into the string writer and the trace: never a panic, on any string *)
Theorem C06_writer_on_any_string : forall s : list N, w_fold [] (snd (rd s)) <> None.
Proof. exact writer_on_reader_stream. Qed.
Theorem C06_trace_on_any_string : forall s : list N, tfold trace0 (r_events (read s)) <> None.
Proof. exact trace_on_reader_stream. Qed.
(* ... into the builder: never a panic outside the known class *)
Theorem C06_builder_outside_known_class : forall h, conformant h = true -> no_known_kind h -> bld h <> BPanic.
Proof. exact builder_outside_known. Qed.
Theorem C06_builder_on_any_string_outside_known_class : forall s : list N, no_known_kind (snd (rd s)) -> bld (snd (rd s)) <> BPanic.
Proof. exact builder_on_reader_stream. Qed.
(* traversing any adjacency list whatsoever *)
Theorem C06_walk_sites_never_reached : forall g : list atom, fst (walk g) <> WPanic 1 /\ fst (walk g) <> WFuel /\ fst (walk g) <> WPanic 4.
Proof. exact walk_panic_sites. Qed.
Theorem C06_inversion_panics_exactly_on_known_class : forall k, invert k = KPanic <-> known_invert_panic k = true.
Proof. exact invert_panic_known. Qed.
Theorem C06_pool_panics_only_at_the_limit : forall size s, reach (wpool s) ->
  match step size s with Stop r s' => r = WPanic 3 -> (99 <= N.of_nat (length (borrowed (wpool s'))))%N | _ => True end.
Proof. intros size s Hr. pose proof (step_reach size s Hr) as H. destruct (step size s); try exact I. apply H. Qed.
(* the known findings refute the full statement *)
Theorem C06_full_statement_refuted : ~ C06_full.
Proof. exact C06_refuted. Qed.

Print Assumptions C06_reader_total.
Print Assumptions C06_writer_on_any_string.
Print Assumptions C06_trace_on_any_string.
Print Assumptions C06_builder_outside_known_class.
Print Assumptions C06_builder_on_any_string_outside_known_class.
Print Assumptions C06_walk_sites_never_reached.
Print Assumptions C06_inversion_panics_exactly_on_known_class.
Print Assumptions C06_pool_panics_only_at_the_limit.
Print Assumptions C06_full_statement_refuted.
