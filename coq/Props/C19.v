(* C19 — stack use is bounded by branch nesting, not by molecule size. Statements only.
   The model's depth counter counts simultaneously active read_smiles frames (the only recursive cycle of the
   library: read_smiles -> read_branch -> read_smiles); bytes of stack per frame are the compiler's and are measured
   by running the implementation on unbounded families in a child process. *)
From Coq Require Import List NArith Bool.
Require Import P.Meta.Scan P.Model.Reader P.Proofs.ReaderDepth.

Theorem C19_call_depth_bounded_by_nesting : forall s : list char, r_depth (read s) <= 1 + nesting s.
Proof. exact reader_depth_bounded_by_nesting. Qed.
(* chains, dot-separated lists, ring systems without parentheses: depth one, whatever the length *)
Theorem C19_no_parentheses_no_recursion : forall s : list char, nesting s = 0 -> r_depth (read s) <= 1.
Proof. exact chain_has_depth_one. Qed.

Print Assumptions C19_call_depth_bounded_by_nesting.
Print Assumptions C19_no_parentheses_no_recursion.
