(* Non-vacuity witnesses, part 1: the graph side (C01, C03, C08, C10 first half, C11, C12, C14).
   Every theorem of Props/C*.v that is an implication is instantiated here on a concrete input with real structure,
   and ALL its hypotheses are proved for that input (by computation).  No theorem of Props/ is used to discharge a
   hypothesis.  Witness graph [gA] (hand-built, 11 atoms, 2 components):
       C(OCC=1N[C@H]2[13CH2-:7])2=1.F/C=C\Cl          (the text the writer prints for its traversal)
   two ring closures open at once on atom 0, bond lists NOT in arrival order (atom 0 lists its ring-closure partners
   before / after the chain successor, atom 1 is entered through the bond at index 1 of its list), a tetrahedral centre
   with a virtual hydrogen, an isotope / charge / map-number atom, a double bond closed by a ring digit, a second
   component with directional bonds. *)
From Coq Require Import String List NArith Bool Arith Lia Permutation.
Import ListNotations.
Require Import P.Generated.Enums P.Spec.Values P.Spec.Known P.Spec.Normal P.Spec.Events P.Spec.Graph P.Spec.Roundtrip P.Spec.Lang
  P.Model.Base P.Model.Reader P.Model.Writer P.Model.Walk P.Model.Builder
  P.Proofs.TokenFacts P.Proofs.BodyFacts P.Proofs.C09_Writer P.Proofs.C09_Final P.Proofs.BuilderMore P.Proofs.D0 P.Proofs.D1 P.Proofs.D2 P.Proofs.D7 P.Proofs.Stereo P.Proofs.C12_Final P.Proofs.WalkValues.
Strategy opaque [P.Generated.Trees.tree_symbol P.Generated.Trees.tree_organic P.Generated.Trees.tree_configuration P.Generated.Trees.tree_charge P.Generated.Trees.tree_bond P.Generated.Trees.tree_rnum P.Generated.Trees.tree_hcount P.Generated.Trees.tree_isotope P.Generated.Trees.tree_map].

(* ---- boolean checkers for the list predicates, and their soundness ---- *)
Definition onb (o : option N) : bool := match o with Some n => (n <? 1000)%N | None => true end.
Definition okkb (k : atom_kind) : bool := match k with AK_Bracket i _ _ _ _ m => onb i && onb m | _ => true end.
Definition okevb (e : ev) : bool :=
  match e with ERoot k => okkb k | EExtend _ k => okkb k | EJoin _ r => (r <? 100)%N | EPop _ => true end.
Lemma onb_sound o : onb o = true -> in_numbers o.
Proof. intros H n ->. apply N.ltb_lt. exact H. Qed.
Lemma okkb_sound k : okkb k = true -> okk k.
Proof.
  destruct k as [| | |i s c h g m]; intros H; try exact I.
  apply andb_prop in H. destruct H as [H1 H2]. split; apply onb_sound; assumption.
Qed.
Lemma okevb_sound e : okevb e = true -> okev e.
Proof. destruct e as [k|b k|b r|n]; cbn [okevb okev]; intros H; try exact I; try (apply okkb_sound; exact H). apply N.ltb_lt. exact H. Qed.
Lemma okev_all h : forallb okevb h = true -> Forall okev h.
Proof. intros H. apply Forall_forall. intros e He. apply okevb_sound. exact (proj1 (forallb_forall _ _) H e He). Qed.
Lemma okg_all g : forallb (fun a => okkb (akind a)) g = true -> okg g.
Proof. intros H a Ha. apply okkb_sound. exact (proj1 (forallb_forall _ _) H a Ha). Qed.
Lemma safe_graph_all g : forallb (fun a => negb (known_invert_panic (akind a))) g = true -> safe_graph g.
Proof. intros H a Ha. apply negb_true_iff. exact (proj1 (forallb_forall _ _) H a Ha). Qed.
Lemma conformant_history_b h : negb (Nat.eqb (length h) 0) && conformant h = true -> conformant_history h.
Proof. intros H. apply andb_prop in H. destruct H as [H1 H2]. split; [intros ->; discriminate | exact H2]. Qed.

(* ---- the witness graph ---- *)
Definition gA : list atom :=
  [ mkA (AK_Aliphatic Al_C) [(BK_Elided,5); (BK_Elided,1); (BK_Double,3)];
    mkA (AK_Bracket None (BS_Element El_C) (Some Cf_TH1) (Some VH_H1) None None) [(BK_Elided,0); (BK_Elided,2); (BK_Elided,6)];
    mkA (AK_Aliphatic Al_N) [(BK_Elided,3); (BK_Elided,1)];
    mkA (AK_Aliphatic Al_C) [(BK_Double,0); (BK_Elided,4); (BK_Elided,2)];
    mkA (AK_Aliphatic Al_C) [(BK_Elided,5); (BK_Elided,3)];
    mkA (AK_Aliphatic Al_O) [(BK_Elided,0); (BK_Elided,4)];
    mkA (AK_Bracket (Some 13%N) (BS_Element El_C) None (Some VH_H2) (Some Ch_MinusOne) (Some 7%N)) [(BK_Elided,1)];
    mkA (AK_Aliphatic Al_F) [(BK_Up,8)];
    mkA (AK_Aliphatic Al_C) [(BK_Down,7); (BK_Double,9)];
    mkA (AK_Aliphatic Al_C) [(BK_Double,8); (BK_Down,10)];
    mkA (AK_Aliphatic Al_Cl) [(BK_Up,9)] ].
Definition hA : list ev := snd (walk gA).
Definition textA : list N := str "C(OCC=1N[C@H]2[13CH2-:7])2=1.F/C=C\Cl".

Example gA_wf : wf gA = true. Proof. vm_compute. reflexivity. Qed.
Example gA_safe : safe_graph gA. Proof. apply safe_graph_all. vm_compute. reflexivity. Qed.
Example gA_okg : okg gA. Proof. apply okg_all. vm_compute. reflexivity. Qed.
Example gA_nonempty : gA <> []. Proof. discriminate. Qed.
Example gA_walk : walk gA = (WOk, hA). Proof. vm_compute. reflexivity. Qed.
(* the history really has two closures open at once, a pop over six atoms and a second root *)
Example hA_value : hA =
  [ERoot (AK_Aliphatic Al_C); EExtend BK_Elided (AK_Aliphatic Al_O); EExtend BK_Elided (AK_Aliphatic Al_C);
   EExtend BK_Elided (AK_Aliphatic Al_C); EJoin BK_Double 1%N; EExtend BK_Elided (AK_Aliphatic Al_N);
   EExtend BK_Elided (AK_Bracket None (BS_Element El_C) (Some Cf_TH1) (Some VH_H1) None None); EJoin BK_Elided 2%N;
   EExtend BK_Elided (AK_Bracket (Some 13%N) (BS_Element El_C) None (Some VH_H2) (Some Ch_MinusOne) (Some 7%N));
   EPop 6; EJoin BK_Elided 2%N; EJoin BK_Double 1%N;
   ERoot (AK_Aliphatic Al_F); EExtend BK_Up (AK_Aliphatic Al_C); EExtend BK_Double (AK_Aliphatic Al_C); EExtend BK_Down (AK_Aliphatic Al_Cl)].
Proof. vm_compute. reflexivity. Qed.
Example hA_conformant : conformant_history hA. Proof. apply conformant_history_b. vm_compute. reflexivity. Qed.
Example hA_okev : Forall okev hA. Proof. apply okev_all. vm_compute. reflexivity. Qed.
Example hA_text : wr hA = Some textA. Proof. vm_compute. reflexivity. Qed.

Require P.Props.C01 P.Props.C03 P.Props.C08 P.Props.C10 P.Props.C11 P.Props.C12 P.Props.C14.
Require Import P.Proofs.C11.
Definition gB : list atom := expected_roundtrip gA.           (* the rebuilt graph *)

(* ================= C01 ================= *)
(* C01_graph_round_trip_preserves_constitution : wf g = true -> safe_graph g -> walk g = (WOk, h) -> ... *)
Definition nv_C01_graph := P.Props.C01.C01_graph_round_trip_preserves_constitution gA hA gA_wf gA_safe gA_walk.
(* C01_text_is_accepted_and_replays_history : conformant_history h -> Forall okev h -> ... *)
Definition nv_C01_history := P.Props.C01.C01_text_is_accepted_and_replays_history hA hA_conformant hA_okev.
(* C01_text_round_trip : wf g = true -> safe_graph g -> okg g -> g <> nil -> walk g = (WOk, h) -> ... *)
Definition nv_C01_text := P.Props.C01.C01_text_round_trip gA hA gA_wf gA_safe gA_okg gA_nonempty gA_walk.
(* ... and the conclusion's existential is the expected concrete text *)
Example nv_C01_text_value : wr hA = Some textA /\ rd textA = (VOk, map nkev hA) /\ bld (map nkev hA) = BOk (map nk_atom gB).
Proof. vm_compute. repeat split. Qed.

(* ================= C03 ================= *)
(* C03_kind_after_round_trip, C03_builder_adjustment : no hypotheses *)
(* C03_parity_of_moving_to_front : k < n -> ... *)
Example nv_C03_parity_hyp : 3 < 7. Proof. lia. Qed.
Definition nv_C03_parity := P.Props.C03.C03_parity_of_moving_to_front 7 3 nv_C03_parity_hyp.
(* C03_mark_follows_permutation_parity : par gh x = Some p -> find_to p (bonds_of g x) = Some bb -> ...
   ghost = the depth-first forest of gA; x = 1 (the stereo centre), entered from p = 2 through the bond at index 1 *)
Definition ghA : ghost :=
  {| order := map fst (dfs_all gA);
     par := fun x => match find (fun q => Nat.eqb (fst q) x) (dfs_all gA) with Some q => snd q | None => None end;
     cnt := fun _ => 0 |}.
Example nv_C03_mark_hyp1 : par ghA 1 = Some 2. Proof. vm_compute. reflexivity. Qed.
Example nv_C03_mark_hyp2 : find_to 2 (bonds_of gA 1) = Some {| bk := BK_Elided; tid := 2 |}. Proof. vm_compute. reflexivity. Qed.
Definition nv_C03_mark := P.Props.C03.C03_mark_follows_permutation_parity gA ghA 1 2 _ nv_C03_mark_hyp1 nv_C03_mark_hyp2.
Example nv_C03_mark_index_is_odd : should_flip (index_of 2 (map tid (bonds_of gA 1))) = true. Proof. vm_compute. reflexivity. Qed.
(* C03_bond_kinds_kept_per_end : wf g = true -> safe_graph g -> walk g = (WOk, h) -> ... *)
Definition nv_C03_bonds := P.Props.C03.C03_bond_kinds_kept_per_end gA hA gA_wf gA_safe gA_walk.

(* ================= C08 ================= *)
(* C08_reader_conformant, C08_walk_conformant : no hypotheses *)
(* C08_walk_joins_matched : wf g = true -> safe_graph g -> walk g = (WOk, h) -> ... *)
Definition nv_C08_joins := P.Props.C08.C08_walk_joins_matched gA hA gA_wf gA_safe gA_walk.

(* ================= C10, first half (the second half is in NonVacuity2.v) ================= *)
Example hA_conformant_b : conformant hA = true. Proof. vm_compute. reflexivity. Qed.
Example hA_builds : bld hA = BOk gB. Proof. vm_compute. reflexivity. Qed.
Example gB_safe : safe_graph gB. Proof. apply safe_graph_all. vm_compute. reflexivity. Qed.
Example gB_is_not_gA : gB <> gA. Proof. vm_compute. discriminate. Qed.
(* C10_successful_build_is_simple_graph : conformant h = true -> bld h = BOk g -> ... *)
Definition nv_C10_simple := P.Props.C10.C10_successful_build_is_simple_graph hA gB hA_conformant_b hA_builds.
(* C10_built_graph_is_accepted_by_traversal : conformant h = true -> bld h = BOk g -> safe_graph g -> ... *)
Definition nv_C10_accepted := P.Props.C10.C10_built_graph_is_accepted_by_traversal hA gB hA_conformant_b hA_builds gB_safe.
(* C10_one_atom_per_atom_event : bld h = BOk g -> ... *)
Definition nv_C10_atoms := P.Props.C10.C10_one_atom_per_atom_event hA gB hA_builds.

(* ================= C11 ================= *)
(* C11_success_implies_well_formed : fst (walk g) = WOk -> ... *)
Example nv_C11_success_hyp : fst (walk gA) = WOk. Proof. vm_compute. reflexivity. Qed.
Definition nv_C11_success := P.Props.C11.C11_success_implies_well_formed gA nv_C11_success_hyp.
(* C11_ill_formed_refused_with_real_defect : wf g = false -> ...   (a ring whose last bond is listed on one end only, and
   with incompatible kinds on another bond) *)
Definition gBad : list atom :=
  [ mkA (AK_Aliphatic Al_C) [(BK_Elided,1); (BK_Elided,2)];
    mkA (AK_Aliphatic Al_C) [(BK_Up,2); (BK_Elided,0)];
    mkA (AK_Aromatic Ar_N) [(BK_Up,1)] ].
Example nv_C11_ill_hyp : wf gBad = false. Proof. vm_compute. reflexivity. Qed.
Definition nv_C11_ill := P.Props.C11.C11_ill_formed_refused_with_real_defect gBad nv_C11_ill_hyp.
(* C11_validation_is_well_formedness : validate g = None <-> wf g = true    (both sides hold for gA, both fail for gBad) *)
Example nv_C11_validate : validate gA = None /\ wf gA = true /\ validate gBad <> None /\ wf gBad <> true.
Proof. vm_compute. repeat split; discriminate. Qed.
(* C11_well_formed_accepted : wf g = true -> safe_graph g -> ... *)
Definition nv_C11_accepted := P.Props.C11.C11_well_formed_accepted gA gA_wf gA_safe.

(* ================= C12 ================= *)
(* all three: wf g = true -> safe_graph g -> walk g = (WOk, h) -> ... *)
Definition nv_C12_order := P.Props.C12.C12_substituent_order_preserved gA hA gA_wf gA_safe gA_walk.
Definition nv_C12_closed := P.Props.C12.C12_rebuilt_graph_closed_form gA hA gA_wf gA_safe gA_walk.
Definition nv_C12_dfs := P.Props.C12.C12_visiting_order_is_depth_first_in_list_order gA hA gA_wf gA_safe gA_walk.
(* the visiting order is not the identity, and the stereo centre's bond list really is re-ordered *)
Example nv_C12_order_value : map fst (dfs_all gA) = [0; 5; 4; 3; 2; 1; 6; 7; 8; 9; 10]. Proof. vm_compute. reflexivity. Qed.
Example nv_C12_centre : nth_error gB 5 =
  Some (mkA (AK_Bracket None (BS_Element El_C) (Some Cf_TH2) (Some VH_H1) None None) [(BK_Elided,4); (BK_Elided,0); (BK_Elided,6)]).
Proof. vm_compute. reflexivity. Qed.

(* ================= C14 ================= *)
(* C14_written_text_ignores_shorthands : no hypotheses *)
(* C14_write_read_write_is_write : conformant_history h -> Forall okev h -> ... *)
Definition nv_C14_wrw := P.Props.C14.C14_write_read_write_is_write hA hA_conformant hA_okev.
(* C14_rebuilt_graph_is_a_fixed_point : wf g = true -> safe_graph g -> walk g = (WOk, h) -> ... *)
Definition nv_C14_graph := P.Props.C14.C14_rebuilt_graph_is_a_fixed_point gA hA gA_wf gA_safe gA_walk.
(* C14_written_text_is_a_fixed_point : wf g = true -> safe_graph g -> okg g -> g <> [] -> walk g = (WOk, h) -> ... *)
Definition nv_C14_text := P.Props.C14.C14_written_text_is_a_fixed_point gA hA gA_wf gA_safe gA_okg gA_nonempty gA_walk.
Example nv_C14_text_value : wr hA = Some textA /\ rd textA = (VOk, map nkev hA) /\ bld (map nkev hA) = BOk (map nk_atom gB) /\
  walk (map nk_atom gB) = (WOk, map nkev hA) /\ wr (map nkev hA) = Some textA.
Proof. vm_compute. repeat split. Qed.

Print Assumptions nv_C01_text.
Print Assumptions nv_C03_mark.
Print Assumptions nv_C11_ill.
Print Assumptions nv_C14_text.
