(* C07 — every feature value's text form reads back to the same value. Statements only. *)
From Coq Require Import List String NArith Bool.
Import ListNotations.
Require Import P.Generated.Enums P.Spec.Values P.Generated.Tables P.Meta.Scan P.Spec.Spelling P.Spec.Normal P.Model.Base P.Model.Token
  P.Checks.Token_defs P.Proofs.TokenFacts P.Proofs.C07.

(* (a) the text the writer emits is the standard spelling, for every value of every feature enum *)
Theorem C07_display_is_standard_spelling :
  (forall x, display_element x = spelling_element x) /\ (forall x, display_aliphatic x = spelling_aliphatic x) /\
  (forall x, display_aromatic x = spelling_aromatic x) /\ (forall x, display_bracket_aromatic x = spelling_bracket_aromatic x) /\
  (forall x, display_configuration x = spelling_configuration x) /\ (forall x, display_charge x = spelling_charge x) /\
  (forall x, display_virtual_hydrogen x = spelling_virtual_hydrogen x) /\ (forall x, display_rnum x = spelling_rnum x) /\
  (forall x, display_bond_kind x = spelling_bond_kind x).
Proof. exact display_is_spelling. Qed.
(* (b) two different values never share a spelling; only @ / @@ (TH and AL) and absent / H0 are identified *)
Theorem C07_spellings_injective_up_to_shorthands :
  (forall a b, display_element a = display_element b -> a = b) /\
  (forall a b, display_symbol a = display_symbol b -> a = b) /\
  (forall a b, opt_str display_configuration a = opt_str display_configuration b -> nk_cfg a = nk_cfg b) /\
  (forall a b, opt_str display_virtual_hydrogen a = opt_str display_virtual_hydrogen b -> nk_h a = nk_h b) /\
  (forall a b, opt_str display_charge a = opt_str display_charge b -> a = b) /\
  (forall a b, display_rnum a = display_rnum b -> a = b) /\
  (forall a b, display_bond_kind a = display_bond_kind b -> a = b).
Proof. exact spellings_injective. Qed.
(* (c) in position: every atom kind over the full product of its fields (isotope and map below 1000), followed by
   anything (bracket atoms) or by anything that may follow an atom (organic atoms, the wildcard) *)
Theorem C07_atom_reads_back_in_position : forall k x, wf_numbers k ->
  (match k with AK_Bracket _ _ _ _ _ _ => True | _ => follows x end) ->
  read_atom (pp_kind k ++ x) = TOk (nk_kind k) (List.length (pp_kind k)).
Proof. exact read_atom_text. Qed.
Theorem C07_bond_reads_back_in_position : forall b x, hd_in x (atom_starts ++ digit_chars ++ [37%N]) ->
  read_bond (pp_bond b ++ x) = (b, List.length (pp_bond b)).
Proof. exact read_bond_text. Qed.
Theorem C07_rnum_reads_back_in_position : forall r x, follows x ->
  read_rnum (rnum_text r ++ x) = TOk (rnum_number r) (List.length (rnum_text r)).
Proof. exact read_rnum_text. Qed.

Print Assumptions C07_display_is_standard_spelling.
Print Assumptions C07_spellings_injective_up_to_shorthands.
Print Assumptions C07_atom_reads_back_in_position.
Print Assumptions C07_bond_reads_back_in_position.
Print Assumptions C07_rnum_reads_back_in_position.
