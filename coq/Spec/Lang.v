(* C04 / C05: the documented SMILES language as a DECLARATIVE grammar: an inductive predicate on strings
   (lists of code points).  Token families are SETS of spellings -- the keys of the tables of Spec/Reading.v, or
   digit strings.  Nothing here says which of two possible tokenisations is meant, how far a token extends, or
   what is looked at next: the language is the set of strings that have SOME derivation, exactly as for a BNF.

     smiles ::= atom body*          body ::= branch | "." smiles | bond? (smiles | rnum)
     branch ::= "(" ( "." | bond )? smiles ")"

   [Lang] is the flat form   chain ::= atom item*     item ::= branch | "." atom | bond? atom | bond? rnum
   and [Smiles] the production-by-production form; Proofs/LangBNF.v proves  Smiles s <-> Lang s. *)
From Coq Require Import List String NArith.
Import ListNotations.
Require Import P.Meta.Scan P.Spec.Reading.
Definition str (s : string) : list N := chars s.      (* the code points of a string literal *)
Arguments str s%string.

(* ---------- token families ---------- *)
Definition key {V} (table : list (list N * V)) (p : list N) : Prop := In p (map fst table).   (* p is a spelling of the table *)
Definition opt (P : list N -> Prop) (p : list N) : Prop := p = [] \/ P p.
Definition digit (c : N) : Prop := (48 <= c <= 57)%N.
Definition digits13 (p : list N) : Prop := 1 <= List.length p <= 3 /\ Forall digit p.                  (* one to three digits *)

Definition Organic := key organic_table.                 (* B C N O S P F Cl Br I At Ts b c n o p s *)
Definition Symbol := key symbol_table.                   (* 118 elements, b c n o s p se as, "*" *)
Definition Configuration := key configuration_table.     (* @ @@ @TH1 @TH2 @AL1 @AL2 @SP1-3 @TB1-20 @OH1-30 *)
Definition Hcount := key hcount_table.                   (* H H0 .. H9 *)
Definition Charge := key charge_table.                   (* + ++ +1 .. +15 - -- -1 .. -15 *)
Definition Bond := key bond_table.                       (* - = # $ : / \ *)
Definition Isotope := digits13.
Definition Map (p : list N) : Prop := exists d, p = str ":" ++ d /\ digits13 d.
Definition Rnum (p : list N) : Prop :=
  (exists a, p = [a] /\ digit a) \/ (exists a b, p = str "%" ++ [a; b] /\ digit a /\ digit b).

(* bracket ::= "[" isotope? symbol configuration? hcount? charge? map? "]" *)
Inductive Bracket : list N -> Prop :=
| bracket i s c h g m : opt Isotope i -> Symbol s -> opt Configuration c -> opt Hcount h -> opt Charge g -> opt Map m ->
    Bracket (str "[" ++ i ++ s ++ c ++ h ++ g ++ m ++ str "]").
Definition Atom (a : list N) : Prop := Organic a \/ a = str "*" \/ Bracket a.

(* ---------- the flat form ---------- *)
Inductive Chain : list N -> Prop :=
| chain a r : Atom a -> Items r -> Chain (a ++ r)
with Items : list N -> Prop :=
| items_nil : Items []
| items_cons i r : Item i -> Items r -> Items (i ++ r)
with Item : list N -> Prop :=
| item_branch p x : p = str "." \/ opt Bond p -> Chain x -> Item (str "(" ++ p ++ x ++ str ")")
| item_dot a : Atom a -> Item (str "." ++ a)
| item_atom b a : opt Bond b -> Atom a -> Item (b ++ a)
| item_ring b r : opt Bond b -> Rnum r -> Item (b ++ r).
Definition Lang (s : list N) : Prop := Chain s.

(* ---------- the documented productions, one constructor each ---------- *)
Inductive Smiles : list N -> Prop :=
| smiles a r : Atom a -> Bodies r -> Smiles (a ++ r)
with Bodies : list N -> Prop :=
| bodies_nil : Bodies []
| bodies_cons b r : Body b -> Bodies r -> Bodies (b ++ r)
with Body : list N -> Prop :=
| body_branch x : Branch x -> Body x
| body_split x : Smiles x -> Body (str "." ++ x)
| body_chain b x : opt Bond b -> Smiles x -> Body (b ++ x)
| body_ring b r : opt Bond b -> Rnum r -> Body (b ++ r)
with Branch : list N -> Prop :=
| branch p x : p = str "." \/ opt Bond p -> Smiles x -> Branch (str "(" ++ p ++ x ++ str ")").

(* viable prefix: can be continued to a sentence (C05) *)
Definition viable (p : list N) : Prop := exists q, Lang (p ++ q).
