(* C02 / C10: what a string denotes, computed from its parse (the syntax [body] of Proofs/C09_Inverse.v) by two
   independent passes, without a head stack and without placeholder edges:
   pass 1 numbers the atom tokens in order of appearance and lists for each atom its slots in written order
          (preceding atom, ring tokens, branches / chain successor);
   pass 2 pairs the ring tokens (a token closes the nearest preceding open token of the same number), resolves the
          kinds of the two ends and classifies the closures that cannot be made. *)
From Coq Require Import List NArith Lia Bool Arith.
Import ListNotations.
Require Import P.Generated.Enums P.Spec.Values P.Generated.Tables P.Model.Base P.Model.Builder P.Spec.Known P.Proofs.C09_Inverse P.Proofs.C09_Writer P.Checks.C18_defs.

Inductive slot := SPrev (b : bond_kind) (a : nat) | SNext (b : bond_kind) (a : nat) | SRing (b : bond_kind) (occ : nat).
Definition ringocc := (nat * nat * rnumN * bond_kind)%type.          (* occurrence index, atom, number, written kind *)
(* reading moves a virtual hydrogen across the preceding atom: a non-root tetrahedral centre with a virtual hydrogen is flipped *)
Definition flip_TH (c : option configuration) : option configuration :=
  match c with Some Cf_TH1 => Some Cf_TH2 | Some Cf_TH2 => Some Cf_TH1 | x => x end.
Definition adj (l : link) (k : kind) : kind :=
  match l, k with
  | LBond _, AK_Bracket i s c (Some h) g m => if (P.Spec.Spelling.vh_value h =? 0)%N then k else AK_Bracket i s (flip_TH c) (Some h) g m
  | _, _ => k end.
Fixpoint collect (bd : body) (cur next occ : nat) : list slot * list (nat * kind * list slot) * nat * nat * list ringocc :=
  match bd with
  | BNil => ([], [], next, occ, [])
  | BJoin b r rest =>
      let '(sl, ats, nx, oc, rg) := collect rest cur next (S occ) in
      (SRing b occ :: sl, ats, nx, oc, (occ, cur, r, b) :: rg)
  | BBranch l k inner rest =>
      let a := next in
      let '(sla, ata, nx1, oc1, rg1) := collect inner a (S next) occ in
      let '(sl, ats, nx2, oc2, rg2) := collect rest cur nx1 oc1 in
      ((match l with LBond b => [SNext b a] | LDot => [] end) ++ sl,
       (a, adj l k, (match l with LBond b => [SPrev b cur] | LDot => [] end) ++ sla) :: ata ++ ats, nx2, oc2, rg1 ++ rg2)
  | BNext l k rest =>
      let a := next in
      let '(sla, ata, nx1, oc1, rg1) := collect rest a (S next) occ in
      ((match l with LBond b => [SNext b a] | LDot => [] end),
       (a, adj l k, (match l with LBond b => [SPrev b cur] | LDot => [] end) ++ sla) :: ata, nx1, oc1, rg1)
  end.
(* kinds of the two ends of a closure from the kinds written at the two tokens (property text): equal non-directional
   kinds stay; an elided side takes the other side's kind, reversed for a directional one; / at one end and \ at the
   other are the same bond; anything else cannot be reconciled *)
Definition dirn (k : bond_kind) : bool := negb (bond_kind_eqb (up_down k) k).
Definition resolve (b0 b : bond_kind) : option (bond_kind * bond_kind) :=
  if bond_kind_eqb b0 b then (if dirn b then None else Some (b0, b))
  else if bond_kind_eqb b0 BK_Elided then Some (up_down b, b)
  else if bond_kind_eqb b BK_Elided then Some (b0, up_down b0)
  else if dirn b0 && bond_kind_eqb b (up_down b0) then Some (b0, b)
  else None.
Inductive resol := RMatched (partner : nat) (k : bond_kind) | RBad (closer opener : nat).
Definition same_pair (p : nat * nat) (a b : nat) : bool := (Nat.eqb (fst p) a && Nat.eqb (snd p) b) || (Nat.eqb (fst p) b && Nat.eqb (snd p) a).
(* [bonded]: pairs of atoms already joined (tree bonds, and ring bonds made so far) *)
Fixpoint pair_rings (rg : list ringocc) (opens : list ringocc) (bonded : list (nat * nat)) (res : list (nat * resol)) : list (nat * resol) * list ringocc :=
  match rg with
  | [] => (res, opens)
  | (occ, a, r, b) :: t =>
      match find (fun o => N.eqb (snd (fst o)) r) opens with
      | Some (occ0, a0, _, b0) =>
          let opens' := filter (fun o => negb (N.eqb (snd (fst o)) r)) opens in
          if Nat.eqb a a0 || existsb (fun p => same_pair p a a0) bonded then pair_rings t opens' bonded ((occ, RBad a a0) :: res)
          else match resolve b0 b with
               | Some (l, rt) => pair_rings t opens' ((a, a0) :: bonded) ((occ0, RMatched a l) :: (occ, RMatched a0 rt) :: res)
               | None => pair_rings t opens' bonded ((occ, RBad a a0) :: res)
               end
      | None => pair_rings t ((occ, a, r, b) :: opens) bonded res
      end
  end.
Definition lookup_res (res : list (nat * resol)) (occ : nat) := match find (fun p => Nat.eqb (fst p) occ) res with Some p => Some (snd p) | None => None end.

Inductive dres := DOk (g : list atom) | DJoin (a b : nat) | DUnmatched (occs : list nat).
Definition denote (k0 : kind) (bd : body) : dres :=
  let '(sl0, ats, _, _, rg) := collect bd 0 1 0 in
  let all := (0, k0, sl0) :: ats in
  (* tree bonds exist from the moment the later atom is written; a ring closure between two atoms of a tree bond is
     a second bond whichever is written first, because the closing token comes after both atoms *)
  let tree := flat_map (fun t => flat_map (fun s => match s with SPrev _ p => [(fst (fst t), p)] | _ => [] end) (snd t)) all in
  let '(res, opens) := pair_rings rg [] tree [] in
  match find (fun p => match snd p with RBad _ _ => true | _ => false end) (rev res) with
  | Some (_, RBad a b) => DJoin a b
  | _ =>
    match opens with
    | _ :: _ => DUnmatched (map (fun o => fst (fst (fst o))) opens)
    | [] =>
      let conv (s : slot) : bond :=
        match s with
        | SPrev b a => {| bk := up_down b; tid := a |}
        | SNext b a => {| bk := b; tid := a |}
        | SRing b occ => match lookup_res res occ with Some (RMatched p k) => {| bk := k; tid := p |} | _ => {| bk := b; tid := 0 |} end
        end in
      DOk (map (fun t => {| akind := snd (fst t); bonds := map conv (snd t) |}) all)
    end
  end.

(* from a conformant event history to the syntax it is the flattening of (the writer over syntax of C09) *)
Definition syntax_of (h : list ev) : option (kind * body) :=
  match h with
  | ERoot k0 :: t =>
      match sw_fold [{| slink := None; skind := k0; sitems := [] |}] t with
      | Some (s1 :: rest) => Some (skind s1, to_body (sitems s1) (chain_body rest))
      | _ => None end
  | _ => None end.
Definition denote_events (h : list ev) : option dres := match syntax_of h with Some (k0, bd) => Some (denote k0 bd) | None => None end.
