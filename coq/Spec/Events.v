(* The follower protocol (C08): first event is a root; extend and join only while a head exists; every pop has a depth
   of at least one and less than the current path length. *)
From Coq Require Import List NArith Lia Bool Arith.
Import ListNotations.
Require Import P.Model.Base.

(* [conf len h]: h is conformant when started with path length len *)
Fixpoint conf (len : nat) (h : list ev) : bool :=
  match h with
  | [] => true
  | ERoot _ :: t => conf (S len) t
  | EExtend _ _ :: t => (1 <=? len) && conf (S len) t
  | EJoin _ _ :: t => (1 <=? len) && conf len t
  | EPop d :: t => (1 <=? d) && (d <? len) && conf (len - d) t
  end.
Definition conformant (h : list ev) : bool := conf 0 h.
(* path length after a history *)
Fixpoint plen (len : nat) (h : list ev) : nat :=
  match h with
  | [] => len
  | ERoot _ :: t => plen (S len) t
  | EExtend _ _ :: t => plen (S len) t
  | EJoin _ _ :: t => plen len t
  | EPop d :: t => plen (len - d) t
  end.

(* joins come in matched pairs: a number is opened on one atom and closed on another; nothing stays open.
   Atoms are numbered in order of appearance; the stack of heads is tracked. *)
Fixpoint joins_matched_aux (h : list ev) (stack : list nat) (natoms : nat) (open : list (N * nat)) : bool :=
  match h with
  | [] => match open with [] => true | _ => false end
  | ERoot _ :: t => joins_matched_aux t (natoms :: stack) (S natoms) open
  | EExtend _ _ :: t => joins_matched_aux t (natoms :: stack) (S natoms) open
  | EPop d :: t => joins_matched_aux t (skipn d stack) natoms open
  | EJoin _ r :: t =>
      match stack with
      | [] => false
      | hd :: _ =>
          match find (fun p => N.eqb (fst p) r) open with
          | Some (_, a) => negb (Nat.eqb a hd) && joins_matched_aux t stack natoms (filter (fun p => negb (N.eqb (fst p) r)) open)
          | None => joins_matched_aux t stack natoms ((r, hd) :: open)
          end
      end
  end.
Definition joins_matched (h : list ev) : bool := joins_matched_aux h [] 0 [].
