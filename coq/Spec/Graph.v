(* Well-formed adjacency lists (C11, C10) and real defects, written from the text of the properties. *)
From Coq Require Import List String NArith Lia Bool Arith.
Import ListNotations.
Require Import P.Generated.Enums P.Spec.Values P.Model.Base P.Checks.C18_defs.

Definition count_to (l : list bond) (j : nat) : nat := List.length (filter (fun b => Nat.eqb (tid b) j) l).
Definition spec_reverse (k : bond_kind) : bond_kind := up_down k.       (* swaps Up and Down, by variant name *)
(* one half-bond i -> tid b of kind bk b: target exists, is not i, is named once in i's list, and the target names i
   exactly once, with the reversed kind *)
Definition half_ok (g : list atom) (i : nat) (own : list bond) (b : bond) : bool :=
  (tid b <? List.length g) && negb (Nat.eqb (tid b) i) && Nat.eqb (count_to own (tid b)) 1 &&
  match nth_error g (tid b) with
  | Some a => Nat.eqb (count_to (bonds a) i) 1 &&
              forallb (fun b' => negb (Nat.eqb (tid b') i) || bond_kind_eqb (bk b') (spec_reverse (bk b))) (bonds a)
  | None => false
  end.
Fixpoint wf_from (g : list atom) (i : nat) (l : list atom) : bool :=
  match l with [] => true | a :: t => forallb (half_ok g i (bonds a)) (bonds a) && wf_from g (S i) t end.
Definition wf (g : list atom) : bool := wf_from g 0 g.

Inductive defect := DHalf (a b : nat) | DDuplicate (a b : nat) | DUnknown (a b : nat) | DIncompatible (a b : nat) | DLoop (a : nat).
Definition bonds_at (g : list atom) (i : nat) : list bond := match nth_error g i with Some a => bonds a | None => [] end.
Definition has_defect (g : list atom) (d : defect) : Prop :=
  match d with
  | DUnknown i j => (exists b, In b (bonds_at g i) /\ tid b = j) /\ List.length g <= j
  | DLoop i => exists b, In b (bonds_at g i) /\ tid b = i
  | DHalf i j => (exists b, In b (bonds_at g i) /\ tid b = j) /\ count_to (bonds_at g j) i = 0
  | DDuplicate i j => (exists b, In b (bonds_at g i) /\ tid b = j) /\ 2 <= count_to (bonds_at g j) i
  | DIncompatible j i => exists b b', In b (bonds_at g i) /\ tid b = j /\ In b' (bonds_at g j) /\ tid b' = i /\ bk b' <> spec_reverse (bk b)
  end.

(* executable version of has_defect, for evaluating the specification on the implementation's outputs *)
Definition has_defect_b (g : list atom) (d : defect) : bool :=
  let names i j := existsb (fun b => Nat.eqb (tid b) j) (bonds_at g i) in
  match d with
  | DUnknown i j => names i j && (List.length g <=? j)
  | DLoop i => names i i
  | DHalf i j => names i j && Nat.eqb (count_to (bonds_at g j) i) 0
  | DDuplicate i j => names i j && (2 <=? count_to (bonds_at g j) i)
  | DIncompatible j i => existsb (fun b => Nat.eqb (tid b) j && existsb (fun b' => Nat.eqb (tid b') i && negb (bond_kind_eqb (bk b') (spec_reverse (bk b)))) (bonds_at g j)) (bonds_at g i)
  end.
