(* C04 / C05: the documented SMILES grammar as an executable, backtracking recogniser written from the token families
   of Spec/Reading.v (tables of spellings) and the productions documented in read.rs.  It tries every tokenisation
   (no longest-match assumption, no lookahead discipline), so it defines the LANGUAGE; and because every
   nonterminal is productive, a prefix is viable (can be continued to a sentence) exactly when some parse path
   consumes it entirely.
     smiles ::= atom body*         body ::= branch | "." smiles | bond? (smiles | rnum)
     branch ::= "(" ("." | bond)? smiles ")"
   is recognised through the equivalent flat form  X ::= atom (branch | "." atom | bond? atom | bond? rnum)*,
   branch ::= "(" ("." | bond?) X ")". *)
From Coq Require Import List String Ascii NArith Lia Bool Arith.
Import ListNotations.
Require Import P.Generated.Enums P.Meta.Scan P.Spec.Values P.Spec.Spelling P.Spec.Reading.

Record pres := { hit_end : bool; rests : list (list char) }.
Definition fail : pres := {| hit_end := false; rests := [] |}.
Fixpoint strip (t s : list char) : option (list char) :=      (* t is a prefix of s: the rest *)
  match t, s with [], _ => Some s | c :: t', d :: s' => if N.eqb c d then strip t' s' else None | _ :: _, [] => None end.
Fixpoint cut_short (t s : list char) : bool :=                (* s is a proper prefix of t: input ends inside the token *)
  match t, s with _ :: _, [] => true | c :: t', d :: s' => N.eqb c d && cut_short t' s' | [], _ => false end.
Definition dedup (l : list (list char)) : list (list char) :=
  fold_right (fun x acc => if existsb (fun y => Nat.eqb (List.length y) (List.length x)) acc then acc else x :: acc) [] l.
Definition token (table : list (list char)) (s : list char) : pres :=
  {| hit_end := existsb (fun t => cut_short t s) table;
     rests := dedup (flat_map (fun t => match strip t s with Some r => [r] | None => [] end) table) |}.
Definition chr (c : char) (s : list char) : pres := token [[c]] s.
Definition seqp (p q : list char -> pres) (s : list char) : pres :=
  let r1 := p s in let rs := map q (rests r1) in
  {| hit_end := hit_end r1 || existsb hit_end rs; rests := dedup (flat_map rests rs) |}.
Definition optp (p : list char -> pres) (s : list char) : pres := let r := p s in {| hit_end := hit_end r; rests := dedup (s :: rests r) |}.
Definition altp (p q : list char -> pres) (s : list char) : pres := let a := p s in let b := q s in {| hit_end := hit_end a || hit_end b; rests := dedup (rests a ++ rests b) |}.
Definition is_digit (c : char) : bool := (48 <=? c)%N && (c <=? 57)%N.
(* one to [maxd] digits *)
Fixpoint digits (maxd : nat) (s : list char) : pres :=
  match maxd with
  | 0 => fail
  | S m => match s with
           | [] => {| hit_end := true; rests := [] |}
           | c :: s' => if is_digit c then let r := digits m s' in {| hit_end := false; rests := dedup (s' :: rests r) |} else fail
           end
  end.
Definition keys {V} (t : list (list char * V)) : list (list char) := map fst t.
Definition p_isotope := digits 3.
Definition p_symbol := token (keys symbol_table).
Definition p_configuration := token (keys configuration_table).
Definition p_hcount := token (keys hcount_table).
Definition p_charge := token (keys charge_table).
Definition p_map := seqp (chr 58%N) (digits 3).
Definition p_bracket := seqp (chr 91%N) (seqp (optp p_isotope) (seqp p_symbol (seqp (optp p_configuration) (seqp (optp p_hcount) (seqp (optp p_charge) (seqp (optp p_map) (chr 93%N))))))).
Definition p_atom := altp (token (keys organic_table)) (altp (chr 42%N) p_bracket).
Definition p_bond := token (keys bond_table).
Definition p_rnum := altp (digits 1) (seqp (chr 37%N) (fun s => match s with
    | [] => {| hit_end := true; rests := [] |}
    | a :: [] => {| hit_end := is_digit a; rests := [] |}
    | a :: b :: r => if is_digit a && is_digit b then {| hit_end := false; rests := [r] |} else fail end)).

(* closure of a set of states under one more item: only the frontier (states found in the previous round) is expanded *)
Fixpoint star (fuel : nat) (item : list char -> pres) (seen frontier : list (list char)) (hit : bool) : pres :=
  match fuel with
  | 0 => {| hit_end := hit; rests := seen |}
  | S f => match frontier with
           | [] => {| hit_end := hit; rests := seen |}
           | _ => let rs := map item frontier in
                  let news := filter (fun x => negb (existsb (fun y => Nat.eqb (List.length y) (List.length x)) seen)) (dedup (flat_map rests rs)) in
                  star f item (seen ++ news) news (hit || existsb hit_end rs)
           end
  end.
Fixpoint p_X (fuel : nat) (s : list char) : pres :=
  match fuel with
  | 0 => fail
  | S f =>
      let branch := seqp (chr 40%N) (seqp (altp (chr 46%N) (optp p_bond)) (seqp (p_X f) (chr 41%N))) in
      let item := altp branch (altp (seqp (chr 46%N) p_atom) (seqp (optp p_bond) (altp p_atom p_rnum))) in
      let a := p_atom s in
      let r := star (S (List.length s)) item (rests a) (rests a) false in
      {| hit_end := hit_end a || hit_end r; rests := rests r |}
  end.
Definition parse (s : list char) : pres := p_X (S (List.length s)) s.
Definition accepts_spec (s : list char) : bool := existsb (fun r => match r with [] => true | _ => false end) (rests (parse s)).
(* viable prefix: some parse path consumes all of it (inside a token, between tokens, or as a complete sentence) *)
Definition viable_spec (p : list char) : bool := let r := parse p in hit_end r || existsb (fun x => match x with [] => true | _ => false end) (rests r).
