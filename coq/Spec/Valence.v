(* The valence model of C17/C16, written from the text of the properties and from element names / atomic numbers;
   nothing here looks at the code's target tables. *)
From Coq Require Import List String NArith Lia Bool Arith.
Import ListNotations.
Require Import P.Generated.Enums P.Spec.Values P.Spec.Spelling.
Local Open Scope string_scope.

(* standard valences of the organic subset, by element name *)
Definition std_valences (name : string) : list N :=
  match name with
  | "B" => [3] | "C" => [4] | "N" => [3; 5] | "P" => [3; 5] | "O" => [2] | "S" => [2; 4; 6]
  | "F" => [1] | "Cl" => [1] | "Br" => [1] | "I" => [1] | "At" => [1] | "Ts" => [1]
  | _ => []
  end%N.
(* distance from a bond-order sum to the smallest valence of the list that is not below it; zero when there is none *)
Definition distance (vs : list N) (sum : N) : N :=
  match find (fun v => (sum <=? v)%N) vs with Some v => (v - sum)%N | None => 0%N end.
(* hydrogen count of an atom of kind k whose bonds have order sum [sum] *)
Definition hcount_of (h : option virtual_hydrogen) : N := match h with Some h => vh_value h | None => 0%N end.
Definition hydrogens_spec (k : atom_kind) (sum : N) : N :=
  match k with
  | AK_Star => 0
  | AK_Aliphatic a => distance (std_valences (name_aliphatic a)) sum
  | AK_Aromatic a => let d := distance (std_valences (name_aromatic a)) sum in (d - 1)     (* one less, not below zero: N subtraction truncates *)
  | AK_Bracket _ _ _ h _ _ => hcount_of h
  end%N.
(* atomic number = position of the variant in Element (H = 1) *)
Definition atomic_number (e : element) : N := N.of_nat (S (idx_element e)).
Definition element_of_Z (z : N) : option element := if (z =? 0)%N then None else nth_error all_element (N.to_nat (z - 1)).
Definition element_named (nm : string) : option element := find (fun e => String.eqb (name_element e) nm) all_element.
(* the element a bracket symbol denotes (bracket aromatics by their capitalised name) *)
Definition capitalize (s : string) : string :=
  match s with EmptyString => s | String a t => String (let n := Ascii.nat_of_ascii a in if (Nat.leb 97 n && Nat.leb n 122)%bool then Ascii.ascii_of_nat (n - 32) else a) t end.
Definition symbol_element (s : bracket_symbol) : option element :=
  match s with BS_Star => None | BS_Element e => Some e | BS_Aromatic a => element_named (name_bracket_aromatic a) end.
(* what an atom kind denotes: element (None = wildcard) and aromatic flag *)
Definition kind_element_name (k : atom_kind) : string :=
  match k with
  | AK_Star => "*" | AK_Aliphatic a => name_aliphatic a | AK_Aromatic a => name_aromatic a
  | AK_Bracket _ BS_Star _ _ _ _ => "*" | AK_Bracket _ (BS_Element e) _ _ _ _ => name_element e
  | AK_Bracket _ (BS_Aromatic a) _ _ _ _ => name_bracket_aromatic a
  end.
Definition kind_aromatic (k : atom_kind) : bool :=
  match k with AK_Aromatic _ => true | AK_Bracket _ (BS_Aromatic _) _ _ _ _ => true | _ => false end.
