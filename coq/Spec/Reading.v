(* The spellings the documented grammar accepts for each token family, and the values they denote.
   Written from variant names and integers only. *)
From Coq Require Import List String Ascii ZArith NArith Bool Arith.
Import ListNotations.
Require Import P.Generated.Enums P.Meta.Scan P.Spec.Values P.Spec.Spelling.
Local Open Scope string_scope.

Definition chars (s : string) : list char := map N_of_ascii (list_ascii_of_string s).
Definition two_digits (k : N) : string := digit (k / 10) ++ digit (k mod 10).
Definition three_digits (k : N) : string := digit (k / 100) ++ digit ((k / 10) mod 10) ++ digit (k mod 10).
Definition at_name (c : configuration) : string := "@" ++ name_configuration c.
Definition signed (s : string) (k : nat) : string := s ++ dec (N.of_nat k).
Definition twice (s : string) : string := s ++ s.
Definition hdig (k : nat) : string := "H" ++ digit (N.of_nat k).
Definition pct (k : nat) : string := "%" ++ two_digits (N.of_nat k).
Definition colon (s : string) : string := ":" ++ s.
Definition symbol_table : list (list char * bracket_symbol) :=
  (map (fun e => (chars (name_element e), BS_Element e)) all_element ++
   map (fun a => (chars (lower (name_bracket_aromatic a)), BS_Aromatic a)) all_bracket_aromatic ++ [(chars "*", BS_Star)])%list.
Definition organic_table : list (list char * organic) :=
  (map (fun a => (chars (name_aliphatic a), Org_Aliphatic a)) all_aliphatic ++
   map (fun a => (chars (lower (name_aromatic a)), Org_Aromatic a)) all_aromatic)%list.
Definition th1 := find (fun c => String.eqb (name_configuration c) "TH1") all_configuration.
Definition th2 := find (fun c => String.eqb (name_configuration c) "TH2") all_configuration.
Definition configuration_table : list (list char * configuration) :=
  (map (fun c => (chars (at_name c), c)) all_configuration ++
   match th1, th2 with Some a, Some b => [(chars "@", a); (chars "@@", b)] | _, _ => [] end)%list.
Definition charge_of (z : Z) := find (fun c => Z.eqb (charge_value c) z) all_charge.
Definition charge_table : list (list char * charge) :=
  flat_map (fun sg : string * Z =>
     let '(s, m) := sg in
     (match charge_of m with Some c => [(chars s, c)] | None => [] end ++
      match charge_of (2 * m)%Z with Some c => [(chars (twice s), c)] | None => [] end ++
      flat_map (fun k => match charge_of (m * Z.of_nat k)%Z with Some c => [(chars (signed s k), c)] | None => [] end) (seq 1 15))%list)
   [("+", 1%Z); ("-", (-1)%Z)].
Definition vh_of (v : N) := find (fun h => N.eqb (vh_value h) v) all_virtual_hydrogen.
Definition hcount_table : list (list char * virtual_hydrogen) :=
  (match vh_of 1 with Some h => [(chars "H", h)] | None => [] end ++
   flat_map (fun k => match vh_of (N.of_nat k) with Some h => [(chars (hdig k), h)] | None => [] end) (seq 0 10))%list.
Definition rnum_of (v : N) := find (fun r => N.eqb (rnum_value r) v) all_rnum.
Definition rnum_table : list (list char * rnum) :=
  (flat_map (fun k => match rnum_of (N.of_nat k) with Some r => [(chars (digit (N.of_nat k)), r)] | None => [] end) (seq 0 10) ++
   flat_map (fun k => match rnum_of (N.of_nat k) with Some r => [(chars (pct k), r)] | None => [] end) (seq 0 100))%list.
(* every digit string of length 1..3 (leading zeros allowed) with its value *)
Definition digit_strings : list (string * N) :=
  (map (fun k => (digit (N.of_nat k), N.of_nat k)) (seq 0 10) ++
   map (fun k => (two_digits (N.of_nat k), N.of_nat k)) (seq 0 100) ++
   map (fun k => (three_digits (N.of_nat k), N.of_nat k)) (seq 0 1000))%list.
Definition isotope_table : list (list char * N) := map (fun p => (chars (fst p), snd p)) digit_strings.
Definition map_table : list (list char * N) := map (fun p => (chars (colon (fst p)), snd p)) digit_strings.
Definition bond_table : list (list char * bond_kind) :=
  flat_map (fun k => let s := spelling_bond_kind k in if String.eqb s "" then [] else [(chars s, k)]) all_bond_kind.
Definition bk_elided := find (fun k => String.eqb (name_bond_kind k) "Elided") all_bond_kind.

(* ---------- the specification trie of a token family ---------- *)
Section Trie.
Variable V : Type.
Definition heads (es : list (list char * V)) : list char :=
  nodup N.eq_dec (flat_map (fun e => match fst e with [] => [] | c :: _ => [c] end) es).
Definition step_entries (c : char) (es : list (list char * V)) : list (list char * V) :=
  flat_map (fun e => match fst e with c' :: t => if N.eqb c' c then [(t, snd e)] else [] | [] => [] end) es.
Definition accepting (es : list (list char * V)) : option V :=
  match find (fun e => match fst e with [] => true | _ => false end) es with Some e => Some (snd e) | None => None end.
(* at_root: what to answer when nothing of the family starts here (None = it is an error) *)
Fixpoint trie (fuel : nat) (at_root : option (outcome V)) (pos : nat) (es : list (list char * V)) : tree V :=
  let stop_eof := match accepting es with Some v => Leaf (OVal v)
                  | None => match pos, at_root with 0, Some o => Leaf o | _, _ => Leaf OErrEol end end in
  let stop_chr := match accepting es with Some v => Leaf (OVal v)
                  | None => match pos, at_root with 0, Some o => Leaf o | _, _ => Leaf (OErrChar pos) end end in
  match fuel with
  | 0 => stop_chr
  | S f => match heads es with
           | [] => stop_chr
           | hs => IfEof stop_eof (fold_right (fun c t => Test (PLit c) (Pop (trie f at_root (S pos) (step_entries c es))) t) stop_chr hs)
           end
  end.
Definition trie_of at_root (es : list (list char * V)) := trie 8 at_root 0 es.
End Trie.
Arguments trie_of {V}.
