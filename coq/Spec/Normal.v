(* The documented shorthands (C07): @ and @@ stand for both the TH and the AL pair, an absent hydrogen count equals H0.
   [nk] maps a value to the representative that reading its text yields. Defined from variant names. *)
From Coq Require Import List String NArith Bool.
Import ListNotations.
Require Import P.Generated.Enums P.Spec.Values P.Spec.Spelling.
Local Open Scope string_scope.
Definition cfg_named (nm : string) : option configuration := find (fun c => String.eqb (name_configuration c) nm) all_configuration.
Definition nk_cfg (c : option configuration) : option configuration :=
  match c with
  | Some x => match name_configuration x with "AL1" => cfg_named "TH1" | "AL2" => cfg_named "TH2" | _ => Some x end
  | None => None end.
Definition nk_h (h : option virtual_hydrogen) : option virtual_hydrogen :=
  match h with Some x => if (vh_value x =? 0)%N then None else Some x | None => None end.
Definition nk_kind (k : atom_kind) : atom_kind :=
  match k with AK_Bracket i s c h g m => AK_Bracket i s (nk_cfg c) (nk_h h) g m | _ => k end.
