(* Classes of inputs on which the unchanged code is known to violate a property (known findings), defined from the
   specification side (variant names and integers), never from the code's tables. *)
From Coq Require Import List String NArith Bool.
Import ListNotations.
Require Import P.Generated.Enums P.Spec.Values P.Spec.Spelling.
Local Open Scope string_scope.
(* F14 / sites B4, K2: AtomKind::invert_configuration is unimplemented for a configuration other than TH1/TH2 when a
   virtual hydrogen is present *)
Definition is_TH (c : configuration) : bool := match name_configuration c with "TH1" | "TH2" => true | _ => false end.
Definition known_invert_panic (k : atom_kind) : bool :=
  match k with AK_Bracket _ _ (Some c) (Some h) _ _ => negb (is_TH c) && negb (vh_value h =? 0)%N | _ => false end.
