(* Value types that are not plain enums: bracket symbols, organic atoms and atom kinds.
   They mirror the Rust types constructor for constructor; the harness renders Rust values into them. *)
From Coq Require Import List NArith Bool Arith.
Import ListNotations.
Require Import P.Generated.Enums.

Inductive bracket_symbol := BS_Star | BS_Element (e : element) | BS_Aromatic (a : bracket_aromatic).
Inductive organic := Org_Aliphatic (a : aliphatic) | Org_Aromatic (a : aromatic) | Org_Other.
Inductive atom_kind :=
| AK_Star
| AK_Aliphatic (a : aliphatic)
| AK_Aromatic (a : aromatic)
| AK_Bracket (isotope : option N) (symbol : bracket_symbol) (configuration : option configuration)
             (hcount : option virtual_hydrogen) (charge : option charge) (map : option N).

Definition all_bracket_symbol : list bracket_symbol :=
  BS_Star :: map BS_Element all_element ++ map BS_Aromatic all_bracket_aromatic.
Lemma all_bracket_symbol_complete : forall s, In s all_bracket_symbol.
Proof.
  intros [|e|a]; unfold all_bracket_symbol.
  - left; reflexivity.
  - right. apply in_or_app. left. apply in_map, all_element_complete.
  - right. apply in_or_app. right. apply in_map, all_bracket_aromatic_complete.
Qed.
Definition all_option {A} (l : list A) : list (option A) := None :: map Some l.
Lemma all_option_complete {A} (l : list A) : (forall x, In x l) -> forall o, In o (all_option l).
Proof. intros H [x|]; [right; apply in_map, H | left; reflexivity]. Qed.

Definition bs_eqb (a b : bracket_symbol) := match a, b with BS_Star, BS_Star => true | BS_Element x, BS_Element y => element_eqb x y
  | BS_Aromatic x, BS_Aromatic y => bracket_aromatic_eqb x y | _, _ => false end.
Definition org_eqb (a b : organic) := match a, b with Org_Aliphatic x, Org_Aliphatic y => aliphatic_eqb x y
  | Org_Aromatic x, Org_Aromatic y => aromatic_eqb x y | Org_Other, Org_Other => true | _, _ => false end.
Definition opt_eqb {A} (eqb : A -> A -> bool) (a b : option A) :=
  match a, b with Some x, Some y => eqb x y | None, None => true | _, _ => false end.
Definition kind_eqb (a b : atom_kind) : bool :=
  match a, b with
  | AK_Star, AK_Star => true
  | AK_Aliphatic x, AK_Aliphatic y => aliphatic_eqb x y
  | AK_Aromatic x, AK_Aromatic y => aromatic_eqb x y
  | AK_Bracket i s c h g m, AK_Bracket i' s' c' h' g' m' =>
      opt_eqb N.eqb i i' && bs_eqb s s' && opt_eqb configuration_eqb c c' && opt_eqb virtual_hydrogen_eqb h h'
      && opt_eqb charge_eqb g g' && opt_eqb N.eqb m m'
  | _, _ => false
  end.

Lemma bs_eqb_eq a b : bs_eqb a b = true <-> a = b.
Proof.
  destruct a, b; simpl; split; intros H; try discriminate; try reflexivity;
    try (apply element_eqb_eq in H; congruence); try (apply bracket_aromatic_eqb_eq in H; congruence);
    inversion H; subst; try apply element_eqb_eq; try apply bracket_aromatic_eqb_eq; reflexivity.
Qed.
Lemma opt_eqb_eq {A} (eqb : A -> A -> bool) : (forall x y, eqb x y = true <-> x = y) -> forall a b, opt_eqb eqb a b = true <-> a = b.
Proof.
  intros H [x|] [y|]; simpl; split; intros E; try discriminate; try reflexivity.
  - apply H in E. congruence.
  - inversion E; subst. apply H. reflexivity.
Qed.
Lemma kind_eqb_eq a b : kind_eqb a b = true <-> a = b.
Proof.
  destruct a, b; simpl; split; intros H; try discriminate; try reflexivity.
  - apply aliphatic_eqb_eq in H; congruence.
  - inversion H; subst; apply aliphatic_eqb_eq; reflexivity.
  - apply aromatic_eqb_eq in H; congruence.
  - inversion H; subst; apply aromatic_eqb_eq; reflexivity.
  - apply andb_true_iff in H as [H H6]. apply andb_true_iff in H as [H H5]. apply andb_true_iff in H as [H H4].
    apply andb_true_iff in H as [H H3]. apply andb_true_iff in H as [H1 H2].
    apply (opt_eqb_eq _ N.eqb_eq) in H1. apply bs_eqb_eq in H2. apply (opt_eqb_eq _ configuration_eqb_eq) in H3.
    apply (opt_eqb_eq _ virtual_hydrogen_eqb_eq) in H4. apply (opt_eqb_eq _ charge_eqb_eq) in H5. apply (opt_eqb_eq _ N.eqb_eq) in H6.
    subst. reflexivity.
  - inversion H; subst. repeat (apply andb_true_iff; split).
    + apply (opt_eqb_eq _ N.eqb_eq); reflexivity.
    + apply bs_eqb_eq; reflexivity.
    + apply (opt_eqb_eq _ configuration_eqb_eq); reflexivity.
    + apply (opt_eqb_eq _ virtual_hydrogen_eqb_eq); reflexivity.
    + apply (opt_eqb_eq _ charge_eqb_eq); reflexivity.
    + apply (opt_eqb_eq _ N.eqb_eq); reflexivity.
Qed.
