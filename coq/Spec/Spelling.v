(* The standard SMILES spelling of every feature value, written from the NAMES of the variants and from
   integers; nothing here looks at the code's tables (Generated/Tables.v). *)
From Coq Require Import List String Ascii ZArith NArith Bool.
Import ListNotations.
Require Import P.Generated.Enums.
Local Open Scope string_scope.

Definition lower_ascii (a : ascii) : ascii :=
  let n := nat_of_ascii a in if (Nat.leb 65 n && Nat.leb n 90)%bool then ascii_of_nat (n + 32) else a.
Fixpoint lower (s : string) : string := match s with EmptyString => EmptyString | String a t => String (lower_ascii a) (lower t) end.

Definition digit (n : N) : string := String (ascii_of_N (48 + n)) EmptyString.
Definition dec (n : N) : string :=           (* decimal, for n < 1000 *)
  if (n <? 10)%N then digit n
  else if (n <? 100)%N then digit (n / 10) ++ digit (n mod 10)
  else digit (n / 100) ++ digit ((n / 10) mod 10) ++ digit (n mod 10).

(* integers denoted by the variant names *)
Definition charge_value (c : charge) : Z :=
  match name_charge c with
  | "MinusFifteen" => -15 | "MinusFourteen" => -14 | "MinusThirteen" => -13 | "MinusTwelve" => -12 | "MinusEleven" => -11
  | "MinusTen" => -10 | "MinusNine" => -9 | "MinusEight" => -8 | "MinusSeven" => -7 | "MinusSix" => -6 | "MinusFive" => -5
  | "MinusFour" => -4 | "MinusThree" => -3 | "MinusTwo" => -2 | "MinusOne" => -1
  | "One" => 1 | "Two" => 2 | "Three" => 3 | "Four" => 4 | "Five" => 5 | "Six" => 6 | "Seven" => 7 | "Eight" => 8 | "Nine" => 9
  | "Ten" => 10 | "Eleven" => 11 | "Twelve" => 12 | "Thirteen" => 13 | "Fourteen" => 14 | "Fifteen" => 15
  | _ => 0 end%Z.
Fixpoint parse_dec (s : string) (acc : N) : N :=
  match s with EmptyString => acc | String a t => parse_dec t (10 * acc + (N_of_ascii a - 48)) end.
Definition tail (s : string) : string := match s with EmptyString => EmptyString | String _ t => t end.
Definition rnum_value (r : rnum) : N := parse_dec (tail (name_rnum r)) 0.            (* "R73" -> 73 *)
Definition vh_value (h : virtual_hydrogen) : N := parse_dec (tail (name_virtual_hydrogen h)) 0.   (* "H3" -> 3 *)

(* standard spellings *)
Definition spelling_element (e : element) := name_element e.
Definition spelling_aliphatic (a : aliphatic) := name_aliphatic a.
Definition spelling_aromatic (a : aromatic) := lower (name_aromatic a).
Definition spelling_bracket_aromatic (a : bracket_aromatic) := lower (name_bracket_aromatic a).
Definition spelling_configuration (c : configuration) :=
  match name_configuration c with
  | "TH1" | "AL1" => "@" | "TH2" | "AL2" => "@@" | nm => "@" ++ nm end.
Definition spelling_charge (c : charge) :=
  let v := charge_value c in
  (if (v <? 0)%Z then "-" else "+") ++ (if (Z.abs v =? 1)%Z then "" else dec (Z.to_N (Z.abs v))).
Definition spelling_virtual_hydrogen (h : virtual_hydrogen) :=
  let v := vh_value h in if (v =? 0)%N then "" else if (v =? 1)%N then "H" else "H" ++ dec v.
Definition spelling_rnum (r : rnum) :=
  let v := rnum_value r in if (v <? 10)%N then digit v else "%" ++ digit (v / 10) ++ digit (v mod 10).
Definition spelling_bond_kind (k : bond_kind) :=
  match name_bond_kind k with
  | "Elided" => "" | "Single" => "-" | "Double" => "=" | "Triple" => "#" | "Quadruple" => "$"
  | "Aromatic" => ":" | "Up" => "/" | "Down" => "\" | _ => "?" end.
