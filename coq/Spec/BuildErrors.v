(* C10, second half: which strings cannot be built, said without running anything.

   The ring tokens of a string are listed in order of appearance; token number i (counting from 0) is
   (i, atom it is written on, ring number, bond kind written in front of it -- Elided if none).
   Tokens of one ring number pair up consecutively: the 1st with the 2nd, the 3rd with the 4th, ...  A pair is a
   closure; a token left over (the last of an odd number of tokens with its number) is unmatched.
   A closure is bad when it joins an atom to itself, joins two atoms that already have a bond (a bond of the tree,
   or a bond made by an earlier closure that was not itself bad), or when the two written kinds cannot be reconciled.
   Building reports the first bad closure (closing atom, opening atom); failing that, an unmatched token; failing
   that, it succeeds.  (Proofs/BuildErrors*.v.) *)
From Coq Require Import List NArith Arith Sorted.
Import ListNotations.
Require Import P.Generated.Enums P.Spec.Values P.Model.Base P.Proofs.C09_Inverse P.Spec.Denote.

(* ---------- the two ends' kinds ---------- *)
Definition directional (b : bond_kind) : Prop := b = BK_Up \/ b = BK_Down.
Definition flip (b : bond_kind) : bond_kind := match b with BK_Up => BK_Down | BK_Down => BK_Up | x => x end.
(* [reconciled b0 b l r]: with [b0] written at the opening token and [b] at the closing token, the bond is [l] seen from
   the opening atom and [r] seen from the closing atom *)
Inductive reconciled : bond_kind -> bond_kind -> bond_kind -> bond_kind -> Prop :=
| rc_same b : ~ directional b -> reconciled b b b b                                  (* both elided, or the same non-directional kind *)
| rc_opening_elided b : b <> BK_Elided -> reconciled BK_Elided b (flip b) b        (* the closing side's kind, reversed if directional *)
| rc_closing_elided b0 : b0 <> BK_Elided -> reconciled b0 BK_Elided b0 (flip b0)   (* the opening side's kind, reversed if directional *)
| rc_up_down b0 : directional b0 -> reconciled b0 (flip b0) b0 (flip b0).          (* / with \ : each its own *)
Definition irreconcilable (b0 b : bond_kind) : Prop := forall l r, ~ reconciled b0 b l r.

(* ---------- tokens, closures, unmatched tokens ---------- *)
Section Tokens.
Variable rg : list ringocc.
(* token i is written on atom a, carries ring number r and kind b *)
Definition token (i a : nat) (r : rnumN) (b : bond_kind) : Prop := nth_error rg i = Some (i, a, r, b).
(* how many of the first n tokens carry the number r *)
Definition rank (n : nat) (r : rnumN) : nat := length (filter (fun t => N.eqb (snd (fst t)) r) (firstn n rg)).
(* token j (atom a, kind b) closes token i (atom a0, kind b0): same number, i is the 1st, 3rd, 5th ... token with that
   number and j is the next one *)
Definition closure (i a0 : nat) (b0 : bond_kind) (j a : nat) (b : bond_kind) : Prop :=
  exists r, token i a0 r b0 /\ token j a r b /\ i < j /\ Nat.Even (rank i r) /\ rank j r = S (rank i r).
Definition closes (i j : nat) : Prop := exists a0 b0 a b, closure i a0 b0 j a b.
(* token i is never closed: it is the 1st, 3rd, 5th ... token with its number and the last one *)
Definition unmatched (i : nat) : Prop :=
  exists a r b, token i a r b /\ Nat.Even (rank i r) /\ forall j a' b', i < j -> ~ token j a' r b'.

(* ---------- bad closures ---------- *)
Variable tree : list (nat * nat).                 (* the bonds of the tree: (atom, the atom it is written after) *)
Definition tree_bonded (x y : nat) : Prop := In (x, y) tree \/ In (y, x) tree.
Definition same_ends (x y a a0 : nat) : Prop := (x = a /\ y = a0) \/ (x = a0 /\ y = a).
(* [makes_bond j]: the closure completed at token j goes through; [bad_closure j]: it cannot *)
Inductive makes_bond : nat -> Prop :=
| mb_intro i a0 b0 j a b : closure i a0 b0 j a b ->
    a <> a0 -> ~ tree_bonded a a0 -> (exists l r, reconciled b0 b l r) ->
    (forall i' x0 c0 j' x c, j' < j -> closure i' x0 c0 j' x c -> same_ends x x0 a a0 -> bad_closure j') ->
    makes_bond j
with bad_closure : nat -> Prop :=
| bad_self i a0 b0 j a b : closure i a0 b0 j a b -> a = a0 -> bad_closure j
| bad_tree i a0 b0 j a b : closure i a0 b0 j a b -> tree_bonded a a0 -> bad_closure j
| bad_again i a0 b0 j a b i' x0 c0 j' x c : closure i a0 b0 j a b ->
    j' < j -> closure i' x0 c0 j' x c -> same_ends x x0 a a0 -> makes_bond j' -> bad_closure j
| bad_kinds i a0 b0 j a b : closure i a0 b0 j a b -> irreconcilable b0 b -> bad_closure j.
(* the first bad closure is completed at token j, on atom a, and was opened on atom a0 *)
Definition first_bad_closure (j a a0 : nat) : Prop :=
  bad_closure j /\ (forall j', j' < j -> ~ bad_closure j') /\ exists i b0 b, closure i a0 b0 j a b.
Definition no_bad_closure : Prop := forall j, ~ bad_closure j.
End Tokens.

(* ---------- the ring tokens and the tree bonds of a string's syntax ---------- *)
Definition ring_tokens (bd : body) : list ringocc := let '(_, _, _, _, rg) := collect bd 0 1 0 in rg.
Definition prev_bonds (a : nat) (sl : list slot) : list (nat * nat) :=
  flat_map (fun s => match s with SPrev _ p => [(a, p)] | _ => [] end) sl.
Definition tree_bonds (bd : body) : list (nat * nat) :=
  let '(sl0, ats, _, _, _) := collect bd 0 1 0 in prev_bonds 0 sl0 ++ flat_map (fun t => prev_bonds (fst (fst t)) (snd t)) ats.
(* strictly decreasing: the order in which unmatched tokens are listed *)
Definition decreasing (l : list nat) : Prop := StronglySorted gt l.
