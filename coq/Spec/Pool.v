(* C13: the abstract ring-number allocator. A finite set of open closures (unordered atom pairs) with their numbers;
   opening takes the smallest number from 1 upward that is not open, closing frees the pair's number. *)
From Coq Require Import List NArith Lia Bool Arith.
Import ListNotations.
Local Open Scope N_scope.

Definition upair_eqb (p q : nat * nat) : bool :=
  (Nat.eqb (fst p) (fst q) && Nat.eqb (snd p) (snd q)) || (Nat.eqb (fst p) (snd q) && Nat.eqb (snd p) (fst q)).
Definition open_set := list ((nat * nat) * N).
Definition open_number (o : open_set) (p : nat * nat) : option N :=
  option_map snd (find (fun e => upair_eqb (fst e) p) o).
Definition close (o : open_set) (p : nat * nat) : open_set :=
  (fix go (l : open_set) := match l with [] => [] | e :: t => if upair_eqb (fst e) p then t else e :: go t end) o.
(* least n >= 1 not among the open numbers; it is at most |open| + 1 *)
Fixpoint least_free_from (fuel : nat) (n : N) (used : list N) : N :=
  match fuel with
  | O => n
  | S f => if existsb (N.eqb n) used then least_free_from f (n + 1) used else n
  end.
Definition least_free (o : open_set) : N := least_free_from (S (length o)) 1 (map snd o).
(* the reference behaviour of a sequence of hits; None = "more than 99 closures would be open" *)
Fixpoint spec_hits (o : open_set) (l : list (nat * nat)) : list (option N) :=
  match l with
  | [] => []
  | p :: t =>
      match open_number o p with
      | Some r => Some r :: spec_hits (close o p) t
      | None => let n := least_free o in
                if n <? 100 then Some n :: spec_hits ((p, n) :: o) t else [None]
      end
  end.
(* the same rule observed on an event stream: a join with a number that is not open must carry the least free one *)
Fixpoint joins_least_free (rs : list N) (open : list N) : bool :=
  match rs with
  | [] => true
  | r :: t =>
      if existsb (N.eqb r) open then joins_least_free t (filter (fun x => negb (N.eqb x r)) open)
      else N.eqb r (least_free_from (S (length open)) 1 open) && joins_least_free t (r :: open)
  end.
