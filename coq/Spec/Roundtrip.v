(* C12 / C01 / C03 / C14: what writing a well-formed adjacency list and reading it back must give, computed by a plain
   recursive depth-first search (no explicit stack, no ring numbers, no text): components start at the lowest
   unvisited atom, children are visited in bond-list order; atom x becomes atom phi(x) = its visiting rank; its bond
   list is the original one with the bond to its DFS parent moved to the front; a tetrahedral mark is flipped exactly
   when that bond sat at an odd index. *)
From Coq Require Import List NArith Lia Bool Arith.
Import ListNotations.
Require Import P.Generated.Enums P.Spec.Values P.Model.Base P.Spec.Denote.

Definition nth_atom (g : list atom) (x : nat) : atom := nth x g {| akind := AK_Star; bonds := [] |}.
(* visited: list of (atom, parent) in visiting order *)
Fixpoint dfs (fuel : nat) (g : list atom) (x : nat) (p : option nat) (vis : list (nat * option nat)) : list (nat * option nat) :=
  match fuel with
  | 0 => vis
  | S f => if existsb (fun v => Nat.eqb (fst v) x) vis then vis
           else fold_left (fun vis' b => dfs f g (tid b) (Some x) vis') (bonds (nth_atom g x)) (vis ++ [(x, p)])
  end.
Definition dfs_all (g : list atom) : list (nat * option nat) :=
  fold_left (fun vis x => dfs (S (List.length g)) g x None vis) (seq 0 (List.length g)) [].
Fixpoint rank (x : nat) (vis : list (nat * option nat)) : nat :=
  match vis with [] => 0 | v :: t => if Nat.eqb (fst v) x then 0 else S (rank x t) end.
Fixpoint index_to (p : nat) (l : list bond) : nat := match l with [] => 0 | b :: t => if Nat.eqb (tid b) p then 0 else S (index_to p t) end.
Fixpoint move_front (p : nat) (l : list bond) : list bond :=
  match l with [] => [] | b :: t => if Nat.eqb (tid b) p then b :: t else match move_front p t with [] => b :: t | h :: r => h :: b :: r end end.
Definition flip_kind (k : atom_kind) : atom_kind := match k with AK_Bracket i s c h g m => AK_Bracket i s (flip_TH c) h g m | _ => k end.
Definition expected_roundtrip (g : list atom) : list atom :=
  let vis := dfs_all g in
  map (fun v => let a := nth_atom g (fst v) in
         match snd v with
         | None => {| akind := akind a; bonds := map (fun b => {| bk := bk b; tid := rank (tid b) vis |}) (bonds a) |}
         | Some p => {| akind := if Nat.odd (index_to p (bonds a)) then flip_kind (akind a) else akind a;
                        bonds := map (fun b => {| bk := bk b; tid := rank (tid b) vis |}) (move_front p (bonds a)) |}
         end) vis.
