//! Generators shared by the correspondence suites. Every random choice comes from one Rng.
use crate::enums_gen::*;
use crate::{Ev, Rng};
use purr::feature::*;
use purr::graph::{Atom, Bond};
use std::convert::TryFrom;

pub fn rnum_number(r: &Rnum) -> u32 { format!("{:?}", r)[1..].parse().unwrap() }
pub fn rnum_of(n: u16) -> Rnum { Rnum::try_from(n).unwrap() }
pub fn bond_kinds() -> Vec<BondKind> { all_bond_kind() }

pub fn gen_kind(rng: &mut Rng) -> AtomKind {
    match rng.below(20) {
        0..=4 => AtomKind::Star,
        5..=10 => AtomKind::Aliphatic(all_aliphatic().swap_remove(rng.below(12))),
        11..=12 => AtomKind::Aromatic(all_aromatic().swap_remove(rng.below(6))),
        13 => gen_edge_bracket(rng),
        14 => gen_stereo(rng),
        _ => gen_bracket(rng),
    }
}
pub fn gen_bracket(rng: &mut Rng) -> AtomKind {
    let symbol = match rng.below(10) { 0 => BracketSymbol::Star, 1..=2 => BracketSymbol::Aromatic(all_bracket_aromatic().swap_remove(rng.below(8))),
        3..=5 => BracketSymbol::Element(all_element().swap_remove(rng.below(118))),
        _ => BracketSymbol::Element(all_element().swap_remove([4usize, 5, 6, 7, 14, 15, 77][rng.below(7)])) };
    let configuration = if rng.chance(1, 2) { None } else if rng.chance(3, 5) { Some(if rng.chance(1, 2) { Configuration::TH1 } else { Configuration::TH2 }) } else { Some(all_configuration().swap_remove(rng.below(57))) };
    AtomKind::Bracket {
        isotope: if rng.chance(1, 4) { Some(Number::try_from([0u16, 1, 12, 13, 99, 100, 999][rng.below(7)]).unwrap()) } else { None },
        symbol, configuration,
        hcount: if rng.chance(2, 5) { Some(all_virtual_hydrogen().swap_remove(if rng.chance(2, 3) { rng.below(3) } else { rng.below(10) })) } else { None },
        charge: if rng.chance(1, 4) { Some(all_charge().swap_remove(rng.below(30))) } else { None },
        map: if rng.chance(1, 5) { Some(Number::try_from([0u16, 1, 7, 42, 100, 999][rng.below(6)]).unwrap()) } else { None },
    }
}
pub fn gen_bk(rng: &mut Rng) -> BondKind { if rng.chance(2, 5) { BondKind::Elided } else { all_bond_kind().swap_remove(rng.below(8)) } }
pub fn gen_rnum(rng: &mut Rng) -> Rnum { rnum_of(match rng.below(12) { 0 | 1 => rng.below(100) as u16, 2 => 10 + rng.below(3) as u16, 3 => 0, 4 => 99, 5 => 9 + rng.below(2) as u16, _ => 1 + rng.below(3) as u16 }) }

/// A protocol-conformant history of `n` further events after the first root.
pub fn gen_history(rng: &mut Rng, n: usize) -> Vec<Ev> {
    let mut h = vec![Ev::Root(gen_kind(rng))];
    let mut len = 1usize;
    for _ in 0..n {
        match rng.below(20) {
            0..=9 => { h.push(Ev::Extend(gen_bk(rng), gen_kind(rng))); len += 1 }
            10..=13 => h.push(Ev::Join(gen_bk(rng), gen_rnum(rng))),
            14..=17 if len >= 2 => { let d = 1 + rng.below(len - 1); h.push(Ev::Pop(d)); len -= d }
            18 => { h.push(Ev::Root(gen_kind(rng))); len += 1 }
            _ => { h.push(Ev::Extend(gen_bk(rng), gen_kind(rng))); len += 1 }
        }
    }
    h
}
/// A history that closes every ring it opens with compatible kinds on distinct, non-adjacent atoms most of the time.
pub fn gen_history_rings(rng: &mut Rng, n: usize) -> Vec<Ev> {
    let mut h = vec![Ev::Root(gen_kind(rng))];
    let mut len = 1usize;
    let mut open: Vec<(u16, BondKind, usize)> = vec![];   // number, kind written at the opening, atom count at opening
    let mut atoms = 1usize;
    for _ in 0..n {
        match rng.below(20) {
            0..=9 => { h.push(Ev::Extend(gen_bk(rng), gen_kind(rng))); len += 1; atoms += 1 }
            10..=12 => { let used: Vec<u16> = open.iter().map(|o| o.0).collect(); let mut r = 1 + rng.below(4) as u16; while used.contains(&r) { r += 1 }
                         let k = gen_bk(rng); h.push(Ev::Join(k.clone(), rnum_of(r))); open.push((r, k, atoms)) }
            13..=15 if !open.is_empty() => { let i = rng.below(open.len()); let (r, k, _) = open.remove(i);
                         let k2 = match rng.below(4) { 0 => BondKind::Elided, 1 => k.reverse(), 2 => k.clone(), _ => gen_bk(rng) }; h.push(Ev::Join(k2, rnum_of(r))) }
            16..=17 if len >= 2 => { let d = 1 + rng.below(len - 1); h.push(Ev::Pop(d)); len -= d }
            18 => { let k = if rng.chance(1, 2) { gen_stereo(rng) } else { gen_kind(rng) }; h.push(Ev::Root(k)); len += 1; atoms += 1;
                    if !open.is_empty() && rng.chance(2, 3) { let i = rng.below(open.len()); let (r, k, _) = open.remove(i); h.push(Ev::Join(if rng.chance(1, 2) { BondKind::Elided } else { k.reverse() }, rnum_of(r))) } }
            _ => { h.push(Ev::Extend(gen_bk(rng), gen_kind(rng))); len += 1; atoms += 1 }
        }
    }
    // close what is still open (sometimes leave one open)
    while let Some((r, k, _)) = open.pop() { if rng.chance(1, 12) { continue } h.push(Ev::Extend(BondKind::Elided, AtomKind::Star)); h.push(Ev::Extend(BondKind::Elided, AtomKind::Star)); h.push(Ev::Join(if rng.chance(1, 2) { BondKind::Elided } else { k.reverse() }, rnum_of(r))) }
    h
}

/// A well-formed graph: random forest plus ring edges, atoms renumbered by a random permutation, bond lists shuffled.
pub fn gen_wf_graph(rng: &mut Rng, maxn: usize) -> Vec<Atom> {
    let n = 1 + rng.below(maxn);
    let mut edges: Vec<(usize, usize, BondKind)> = vec![];
    let has = |e: &Vec<(usize, usize, BondKind)>, a: usize, b: usize| e.iter().any(|(x, y, _)| (*x == a && *y == b) || (*x == b && *y == a));
    for i in 1..n { if rng.chance(17, 20) { let j = rng.below(i); edges.push((j, i, gen_bk(rng))) } }
    // one graph in four is ring-dense (cages, ladders: several closures open at once with interleaved lifetimes)
    let extra = if n >= 3 { if rng.chance(1, 4) { n / 2 + rng.below(n + 1) } else { rng.below(1 + n / 2) } } else { 0 };
    for _ in 0..extra { let a = rng.below(n); let b = rng.below(n); if a != b && !has(&edges, a, b) { edges.push((a, b, gen_bk(rng))) } }
    let mut perm: Vec<usize> = (0..n).collect(); rng.shuffle(&mut perm);
    let mut g: Vec<Atom> = (0..n).map(|_| Atom { kind: gen_kind(rng), bonds: vec![] }).collect();
    for (a, b, k) in edges { let (pa, pb) = (perm[a], perm[b]); g[pa].bonds.push(Bond::new(k.clone(), pb)); g[pb].bonds.push(Bond::new(k.reverse(), pa)) }
    for a in g.iter_mut() { let mut b = std::mem::take(&mut a.bonds); rng.shuffle(&mut b); a.bonds = b }
    g
}
/// One defect: drop / retarget / duplicate / re-kind one half-bond.
pub fn mutate_graph(rng: &mut Rng, g: &mut Vec<Atom>) -> &'static str {
    let with_bonds: Vec<usize> = (0..g.len()).filter(|i| !g[*i].bonds.is_empty()).collect();
    if with_bonds.is_empty() { g[0].bonds.push(Bond::new(BondKind::Elided, 0)); return "self" }
    let i = *rng.pick(&with_bonds); let j = rng.below(g[i].bonds.len()); let n = g.len();
    match rng.below(4) {
        0 => { g[i].bonds.remove(j); "drop" }
        1 => { g[i].bonds[j].tid = match rng.below(4) { 0 => n + rng.below(3), 1 => i, _ => rng.below(n) }; "retarget" }
        2 => { let b = Bond::new(g[i].bonds[j].kind.clone(), g[i].bonds[j].tid); let at = rng.below(g[i].bonds.len() + 1); g[i].bonds.insert(at, b); "duplicate" }
        _ => { let old = g[i].bonds[j].kind.clone(); let mut k = gen_bk(rng); while k == old { k = gen_bk(rng) } g[i].bonds[j].kind = k; "rekind" }
    }
}
pub fn gen_junk_graph(rng: &mut Rng, maxn: usize) -> Vec<Atom> {
    let n = rng.below(maxn + 1);
    (0..n).map(|_| Atom { kind: gen_kind(rng), bonds: (0..rng.below(4)).map(|_| Bond::new(gen_bk(rng), rng.below(n + 1))).collect() }).collect()
}

/// k ring closures open at the same time: chain a_0..a_{k-1}, b_{k-1}..b_0 with a ring bond a_i - b_i listed after the chain bonds.
pub fn gen_ladder(rng: &mut Rng, k: usize) -> Vec<Atom> {
    let n = 2 * k;
    let mut g: Vec<Atom> = (0..n).map(|_| Atom { kind: if rng.chance(1, 6) { gen_kind(rng) } else { AtomKind::Aliphatic(all_aliphatic().swap_remove(1)) }, bonds: vec![] }).collect();
    let a = |i: usize| i; let b = |i: usize| 2 * k - 1 - i;
    for i in 0..n - 1 { let kd = if rng.chance(1, 5) { gen_bk(rng) } else { BondKind::Elided }; g[i].bonds.push(Bond::new(kd.clone(), i + 1)); g[i + 1].bonds.push(Bond::new(kd.reverse(), i)) }
    for i in 0..k { if a(i) + 1 == b(i) { continue } let kd = if rng.chance(1, 4) { gen_bk(rng) } else { BondKind::Elided }; g[a(i)].bonds.push(Bond::new(kd.clone(), b(i))); let at = rng.below(g[b(i)].bonds.len() + 1); g[b(i)].bonds.insert(at, Bond::new(kd.reverse(), a(i))) }
    g
}
/// one hub atom of high degree (stereo and parity at degree >= 4), with a few rings among its neighbours
pub fn gen_hub(rng: &mut Rng, deg: usize) -> Vec<Atom> {
    let n = deg + 1;
    let mut g: Vec<Atom> = (0..n).map(|_| Atom { kind: gen_kind(rng), bonds: vec![] }).collect();
    let hub = rng.below(n);
    let mut others: Vec<usize> = (0..n).filter(|x| *x != hub).collect(); rng.shuffle(&mut others);
    for &o in &others { let kd = gen_bk(rng); g[hub].bonds.push(Bond::new(kd.clone(), o)); g[o].bonds.push(Bond::new(kd.reverse(), hub)) }
    for _ in 0..rng.below(deg / 2 + 1) { let x = *rng.pick(&others); let y = *rng.pick(&others); if x != y && !g[x].bonds.iter().any(|b| b.tid == y) { let kd = gen_bk(rng); let at = rng.below(g[x].bonds.len() + 1); g[x].bonds.insert(at, Bond::new(kd.clone(), y)); let at2 = rng.below(g[y].bonds.len() + 1); g[y].bonds.insert(at2, Bond::new(kd.reverse(), x)) } }
    let mut hb = std::mem::take(&mut g[hub].bonds); rng.shuffle(&mut hb); g[hub].bonds = hb;
    g
}
/// bracket atoms at the edges of every field's range
pub fn gen_edge_bracket(rng: &mut Rng) -> AtomKind {
    let cfgs = [Configuration::TH1, Configuration::TH2, Configuration::AL1, Configuration::AL2, Configuration::SP1, Configuration::SP3, Configuration::TB1, Configuration::TB9, Configuration::TB10, Configuration::TB19, Configuration::TB20, Configuration::OH1, Configuration::OH9, Configuration::OH10, Configuration::OH19, Configuration::OH20, Configuration::OH29, Configuration::OH30];
    AtomKind::Bracket {
        isotope: match rng.below(4) { 0 => None, 1 => Some(Number::try_from(999).unwrap()), 2 => Some(Number::try_from(0).unwrap()), _ => Some(Number::try_from(rng.below(1000) as u16).unwrap()) },
        symbol: match rng.below(3) { 0 => BracketSymbol::Element(all_element().swap_remove(rng.below(118))), 1 => BracketSymbol::Aromatic(all_bracket_aromatic().swap_remove(rng.below(8))), _ => BracketSymbol::Star },
        configuration: if rng.chance(1, 3) { None } else { Some(cfgs[rng.below(cfgs.len())].clone()) },
        hcount: match rng.below(4) { 0 => None, 1 => Some(VirtualHydrogen::H0), 2 => Some(VirtualHydrogen::H9), _ => Some(all_virtual_hydrogen().swap_remove(rng.below(10))) },
        charge: match rng.below(4) { 0 => None, 1 => Some(Charge::Fifteen), 2 => Some(Charge::MinusFifteen), _ => Some(all_charge().swap_remove(rng.below(30))) },
        map: match rng.below(4) { 0 => None, 1 => Some(Number::try_from(999).unwrap()), 2 => Some(Number::try_from(0).unwrap()), _ => Some(Number::try_from(rng.below(1000) as u16).unwrap()) },
    }
}

/// a tetrahedral bracket atom: TH1/TH2, with hcount absent / H0 / H1 / H2
pub fn gen_stereo(rng: &mut Rng) -> AtomKind {
    AtomKind::Bracket { isotope: if rng.chance(1, 5) { Some(Number::try_from(13).unwrap()) } else { None },
        symbol: BracketSymbol::Element(all_element().swap_remove([5usize, 6, 13, 14, 15][rng.below(5)])),
        configuration: Some(if rng.chance(1, 2) { Configuration::TH1 } else { Configuration::TH2 }),
        hcount: match rng.below(4) { 0 => None, 1 => Some(VirtualHydrogen::H0), 2 => Some(VirtualHydrogen::H1), _ => Some(VirtualHydrogen::H2) },
        charge: if rng.chance(1, 6) { Some(Charge::One) } else { None }, map: None }
}

/// every bracket kind of two structured domains is written and read back by the implementation; returns (kinds swept, offenders, a stride sample)
pub fn kind_sweep() -> (usize, Vec<AtomKind>, Vec<AtomKind>) {
    use crate::{clone_kind, guarded};
    use purr::read::verif::{Scanner, verif_read_atom};
    let num = |x: Option<u16>| x.map(|x| Number::try_from(x).unwrap());
    let sym = |i: usize| if i < 118 { BracketSymbol::Element(all_element().swap_remove(i)) } else if i < 126 { BracketSymbol::Aromatic(all_bracket_aromatic().swap_remove(i - 118)) } else { BracketSymbol::Star };
    let cfg = |i: usize| if i == 0 { None } else { Some(all_configuration().swap_remove(i - 1)) };
    let hc = |i: usize| if i == 0 { None } else { Some(all_virtual_hydrogen().swap_remove(i - 1)) };
    let ch = |i: usize| if i == 0 { None } else { Some(all_charge().swap_remove(i - 1)) };
    let (ncfg, nh, nch) = (all_configuration().len() + 1, all_virtual_hydrogen().len() + 1, all_charge().len() + 1);
    let th: Vec<usize> = { let c = all_configuration(); let mut v = vec![0usize]; for (i, x) in c.iter().enumerate() { if *x == Configuration::TH1 || *x == Configuration::TH2 { v.push(i + 1) } } v };
    let common_ch: Vec<usize> = { let c = all_charge(); let mut v = vec![0usize]; for (i, x) in c.iter().enumerate() { if [Charge::One, Charge::MinusOne, Charge::Two, Charge::Three, Charge::MinusTwo].contains(x) { v.push(i + 1) } } v };
    let common_h: Vec<usize> = { let c = all_virtual_hydrogen(); let mut v = vec![0usize]; for (i, x) in c.iter().enumerate() { if [VirtualHydrogen::H0, VirtualHydrogen::H1, VirtualHydrogen::H2, VirtualHydrogen::H3, VirtualHydrogen::H4].contains(x) { v.push(i + 1) } } v };
    let isos = [None, Some(0u16), Some(1), Some(2), Some(3), Some(11), Some(12), Some(13), Some(14), Some(15), Some(18), Some(32), Some(35), Some(99), Some(100), Some(125), Some(131), Some(999)];
    let maps = [None, Some(0u16), Some(1), Some(12)];
    let (mut total, mut bad, mut sample) = (0usize, vec![], vec![]);
    let mut visit = |k: AtomKind| {
        total += 1;
        let text = k.to_string(); let mut sc = Scanner::new(&text);
        // the documented shorthands: H0 is written as nothing, AL1/AL2 as @/@@ (only a filter: the Coq oracle judges what is forwarded)
        let want = match clone_kind(&k) { AtomKind::Bracket { isotope, symbol, configuration, hcount, charge, map } => AtomKind::Bracket { isotope, symbol,
            configuration: match configuration { Some(Configuration::AL1) => Some(Configuration::TH1), Some(Configuration::AL2) => Some(Configuration::TH2), c => c },
            hcount: match hcount { Some(VirtualHydrogen::H0) => None, h => h }, charge, map }, other => other };
        let ok = match guarded(|| verif_read_atom(&mut sc)) { Ok(Ok(Some(k2))) => k2 == want && sc.cursor() == text.chars().count(), _ => false };
        if !ok && bad.len() < 48 { bad.push(clone_kind(&k)) }
        if total % 9973 == 0 { sample.push(k) }
    };
    // A: every symbol, common values of the other fields
    for iso in &isos { for s in 0..127 { for c in &th { for h in &common_h { for q in &common_ch { for m in &maps {
        visit(AtomKind::Bracket { isotope: num(*iso), symbol: sym(s), configuration: cfg(*c), hcount: hc(*h), charge: ch(*q), map: num(*m) }) } } } } } }
    // B: a few symbols, every configuration, hydrogen count and charge
    for iso in [None, Some(13u16), Some(2)].iter() { for s in [5usize, 6, 7, 14, 15, 118, 119, 126].iter() { for c in 0..ncfg { for h in 0..nh { for q in 0..nch { for m in [None, Some(5u16)].iter() {
        visit(AtomKind::Bracket { isotope: num(*iso), symbol: sym(*s), configuration: cfg(c), hcount: hc(h), charge: ch(q), map: num(*m) }) } } } } } }
    (total, bad, sample)
}

/// disjoint union of several graphs (component k keeps its internal order; ids shifted)
pub fn disjoint_union(parts: Vec<Vec<Atom>>) -> Vec<Atom> {
    let mut g: Vec<Atom> = vec![]; 
    for part in parts { let off = g.len(); for a in part { g.push(Atom { kind: a.kind, bonds: a.bonds.into_iter().map(|b| Bond::new(b.kind, b.tid + off)).collect() }) } }
    g
}
/// several ring-bearing components in one list; the number of closures open at once differs from component to component
pub fn gen_components(rng: &mut Rng) -> Vec<Atom> {
    let k = 2 + rng.below(3);
    let parts: Vec<Vec<Atom>> = (0..k).map(|_| match rng.below(4) { 0 => { let r = 1 + rng.below(2); gen_ladder(rng, r) } 1 => { let r = 2 + rng.below(5); gen_ladder(rng, r) } 2 => { let d = 3 + rng.below(4); gen_hub(rng, d) } _ => gen_wf_graph(rng, 6) }).collect();
    disjoint_union(parts)
}
/// a chain with a directed cycle of one-sided chords: every atom is named as often as it names others, yet k >= 3 half-bonds have no counterpart
pub fn gen_directed_cycle(rng: &mut Rng) -> Vec<Atom> {
    let k = 3 + rng.below(3); let gap = 2 + rng.below(2); let n = (k - 1) * gap + 1 + rng.below(3);
    let mut g: Vec<Atom> = (0..n).map(|_| Atom { kind: AtomKind::Star, bonds: vec![] }).collect();
    for i in 0..n - 1 { g[i].bonds.push(Bond::new(BondKind::Elided, i + 1)); g[i + 1].bonds.push(Bond::new(BondKind::Elided, i)) }
    let nodes: Vec<usize> = (0..k).map(|i| i * gap).collect();
    let forward = rng.chance(1, 2);
    for i in 0..k { let (a, b) = if forward { (nodes[i], nodes[(i + 1) % k]) } else { (nodes[(i + 1) % k], nodes[i]) };
        let at = if rng.chance(1, 2) { g[a].bonds.len() } else { rng.below(g[a].bonds.len() + 1) }; g[a].bonds.insert(at, Bond::new(BondKind::Elided, b)) }
    g
}
