//! C19: run one unbounded input family at size n on a thread with an ordinary 8 MiB stack and report the stack span
//! observed in follower callbacks.  A stack overflow aborts the process (the caller treats a signal as a violation).
//! usage: stack <family> <n>
use purr::graph::{Atom, Builder};
use purr::read::{read, Trace};
use purr::walk::{walk, Follower};
use purr::write::Writer;
use purr::feature::{AtomKind, BondKind, Rnum};
use purr_verif_harness::family;

struct Span<F: Follower> { inner: F, lo: usize, hi: usize, events: usize }
impl<F: Follower> Span<F> {
    fn new(inner: F) -> Self { Span { inner, lo: usize::MAX, hi: 0, events: 0 } }
    #[inline(never)] fn mark(&mut self) { let x = 0u8; let a = &x as *const u8 as usize; if a < self.lo { self.lo = a } if a > self.hi { self.hi = a } self.events += 1 }
    fn span(&self) -> usize { if self.events == 0 { 0 } else { self.hi - self.lo } }
}
impl<F: Follower> Follower for Span<F> {
    fn root(&mut self, k: AtomKind) { self.mark(); self.inner.root(k) }
    fn extend(&mut self, b: BondKind, k: AtomKind) { self.mark(); self.inner.extend(b, k) }
    fn join(&mut self, b: BondKind, r: Rnum) { self.mark(); self.inner.join(b, r) }
    fn pop(&mut self, d: usize) { self.mark(); self.inner.pop(d) }
}
fn run(name: String, n: usize) -> String {
    let text = family(&name, n);
    // read into builder + trace
    let mut sb = Span::new(Builder::new()); let mut trace = Trace::new();
    let r = read(&text, &mut sb, Some(&mut trace));
    let read_span = sb.span(); let read_events = sb.events;
    if r.is_err() { return format!("{{\"family\": \"{}\", \"n\": {}, \"ok\": false, \"stage\": \"read\", \"detail\": \"{:?}\"}}", name, n, r) }
    let g: Vec<Atom> = match sb.inner.build() { Ok(g) => g, Err(e) => return format!("{{\"family\": \"{}\", \"n\": {}, \"ok\": false, \"stage\": \"build\", \"detail\": \"{:?}\"}}", name, n, e) };
    let atoms = g.len();
    // walk into writer
    let mut sw = Span::new(Writer::new());
    let w = walk(g, &mut sw);
    let walk_span = sw.span();
    if w.is_err() { return format!("{{\"family\": \"{}\", \"n\": {}, \"ok\": false, \"stage\": \"walk\", \"detail\": \"{:?}\"}}", name, n, w) }
    let out = sw.inner.write();
    // the same text read without a trace must be accepted too, and the written text must read back and write to itself
    let mut b0 = Builder::new();
    let r0 = read(&text, &mut b0, None);
    if r0.is_err() { return format!("{{\"family\": \"{}\", \"n\": {}, \"ok\": false, \"stage\": \"read without trace\", \"detail\": \"{:?}\"}}", name, n, r0) }
    match b0.build() { Ok(g0) if g0.len() == atoms => (), other => return format!("{{\"family\": \"{}\", \"n\": {}, \"ok\": false, \"stage\": \"build without trace\", \"detail\": \"{:?}\"}}", name, n, other.map(|g| g.len())) }
    let mut b1 = Builder::new();
    let r1 = read(&out, &mut b1, None);
    if r1.is_err() { return format!("{{\"family\": \"{}\", \"n\": {}, \"ok\": false, \"stage\": \"reread of written text\", \"detail\": \"{:?}\"}}", name, n, r1) }
    let g1 = match b1.build() { Ok(g1) if g1.len() == atoms => g1, other => return format!("{{\"family\": \"{}\", \"n\": {}, \"ok\": false, \"stage\": \"rebuild of written text\", \"detail\": \"{:?}\"}}", name, n, other.map(|g| g.len())) };
    let mut w1 = Writer::new();
    if let Err(e) = walk(g1, &mut w1) { return format!("{{\"family\": \"{}\", \"n\": {}, \"ok\": false, \"stage\": \"rewalk\", \"detail\": \"{:?}\"}}", name, n, e) }
    if w1.write() != out { return format!("{{\"family\": \"{}\", \"n\": {}, \"ok\": false, \"stage\": \"written text is not a fixed point\", \"detail\": \"\"}}", name, n) }
    format!("{{\"family\": \"{}\", \"n\": {}, \"ok\": true, \"atoms\": {}, \"events\": {}, \"read_span_bytes\": {}, \"walk_span_bytes\": {}, \"same_text\": {}, \"text_len\": {}}}",
            name, n, atoms, read_events, read_span, walk_span, out == text, out.len())
}
fn main() {
    let a: Vec<String> = std::env::args().collect();
    let (name, n) = (a[1].clone(), a[2].parse::<usize>().unwrap());
    // optional third argument: stack size in KiB (default 8 MiB, the usual main-thread stack)
    let kib = a.get(3).and_then(|x| x.parse::<usize>().ok()).unwrap_or(8 * 1024);
    let h = std::thread::Builder::new().stack_size(kib * 1024).spawn(move || run(name, n)).unwrap();
    println!("{}", h.join().unwrap());
}
