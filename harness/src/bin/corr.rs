//! Correspondence case generator: runs the implementation on generated inputs and writes Coq case files that the
//! models and the specification oracles are evaluated on.   usage: corr <suite> <count> <outdir> <shards>
use purr::feature::*;
use purr::graph::{Atom, Bond, Builder};
use purr::graph::verif::JoinPool;
use purr::read::{read, Error as RError, Trace};
use purr::read::verif::{Scanner, verif_read_atom};
use purr::walk::{walk, Error as WError, Follower};
use purr::write::Writer;
use purr_verif_harness::gen::*;
use purr_verif_harness::*;
use std::fmt::Write as _;

fn verdict(r: &Result<Result<(), RError>, String>) -> String {
    match r { Ok(Ok(())) => "VOk".into(), Ok(Err(RError::EndOfLine)) => "VEol".into(), Ok(Err(RError::Character(i))) => format!("(VChar {})", i), Err(_) => "VPanic".into() }
}
fn coq_build(r: Result<Result<Vec<Atom>, purr::graph::Error>, String>) -> String {
    match r { Err(_) => "B'Panic".into(), Ok(Ok(g)) => format!("(B'Ok {})", coq_graph(&g)),
        Ok(Err(purr::graph::Error::Join(a, b))) => format!("(B'Err (BJoin {} {}))", a, b), Ok(Err(purr::graph::Error::Rnum(r))) => format!("(B'Err (BRnum {}))", r) }
}
fn wres(r: &Result<Result<(), WError>, String>) -> String {
    match r {
        Ok(Ok(())) => "WOk".into(),
        Ok(Err(e)) => format!("(WErr ({}))", match e { WError::HalfBond(a, b) => format!("HalfBond {} {}", a, b), WError::DuplicateBond(a, b) => format!("DuplicateBond {} {}", a, b),
            WError::UnknownTarget(a, b) => format!("UnknownTarget {} {}", a, b), WError::IncompatibleBond(a, b) => format!("IncompatibleBond {} {}", a, b), WError::Loop(a) => format!("Loop {}", a) }),
        Err(m) => format!("(WPanic {})", if m.contains("chain head") { 1 } else if m.contains("not implemented") { 2 } else if m.contains("rnum") { 3 } else if m.contains("overflow") { 4 } else { 9 }),
    }
}
fn opt_text(o: Option<String>) -> String { match o { Some(t) => format!("(Some {})", coq_text(&t)), None => "None".into() } }

// ------------------------------------------------------------------ reader suite
fn gen_strings(rng: &mut Rng, n: usize, alpha: &[char]) -> Vec<String> {
    let mut v: Vec<String> = vec![];
    // a fixed corpus first: witnesses of past findings and grammar corner cases
    for s in ["", "C", "CC", "C(C)C", "C.C", "C1CC1", "C%12CC%12", "[13CH4]", "[C@@H](F)(Cl)Br", "[*@TB0]", "[*@TBx", "[G]", "[C+10]", "[C-10]", "[Cs]", "[C+5]", "[*@TB20]", "[*@OH3]", "[*@OH14]",
              "C11", "C1C1", "C12CC12", "C[Pt@SP1H](C)(C)C", "C1C[C@@]1(F)Cl", "C(", "C(C", "C()", "(C)", "C=", "C=1", "C.", "C..C", "C(.C)C", "C(=C)(#N)C", "C%1", "C%", "[", "[C", "[C:", "[C:x]", "[1000U]", "[*:1000]",
              "C/C=C\\C", "F/C=C/F", "C1=CC=CC=C1", "c1ccccc1", "[nH]1cccc1", "C\u{e9}C", "\u{e9}", "[\u{e9}]", "\u{feff}CC", "\u{feff}C(", "\u{feff}", "C\u{feff}", " CC", "CC ", "\u{a0}C", "\u{200b}C", "\tC", "C\n", "[\u{b2}H]", "[C:\u{663}]", "[\u{ff11}\u{ff13}C]", "C[N:\u{bd}]", "[C:1\u{ff12}]", "C%\u{663}1", "C\u{b2}", "[C@TB\u{b2}]", "[C+\u{663}]", "[CH\u{b2}]", "C1CC1.C1C2CC12", "C1C2CC12.C1CC1.C1C2CC12", "C1CC1.C1C2C3CC123", "C1CC1.C.C1C2CC12.C1C2C3CC123", "C(CC1)1", "C(CC=1)%01C", "C(C(C).O)N", "C(C(C).O)=N", "C(C(C)1.OCC1)2CC2", "C(C1CC1)1CC1", "C(CC1CC1)1CCC1", "C(C1.C1)1CC1", "N(C=%07CCC7)(O)7CCC=7", "CC1CCC21CC2", "C/[C@H](F)Cl", "C\\[C@@H](F)Cl", "C(.O)N", "C(.O)1CC1", "CC(C(.[Na+])O)=O", "C1.[C@H]1(F)Cl", "C1.[C@@H]1(F)Cl", "C1.[C@]1(F)(Cl)Br", "C(.[C@H]1(F)Cl)1", "C12.[C@H]1(F)2", "C1C.[C@H]1(F)Cl", "[C@H]1(F)(Cl).C1", "C1.C.[C@@H]1(F)Cl", "[C@H](F)(Cl)1.C1", "C1[C@H]1(F)Cl", "N1OC[C@H0]1(F)Cl", "N1OC[C@@H0]1(F)Cl", "C1CC[C@H0]1(F)Cl", "N[13C@@H](C)C(=O)O", "[13C@@H]", "[13C@H]", "[18F-]", "[13CH3:1]", "[2H+]", "[15NH2+]", "[131I-:5]", "[999U@TB20H9-15:999]", "[0C@OH30H0+15:0]", "[001C]", "C%99CC%99", "C%10CC%101", "C%011CC%01", "C%01CC1", "C9CC9", "C0CC0",
              "C(C(C(C(C(C(C(C(C(C(C(C))))))))))))", "C((C))", "C(C)(C)(C)(C)(C)(C)", "[C@TB1](F)(Cl)(Br)(I)C", "[C@@OH30](F)(Cl)(Br)(I)(C)N", "C1CC2CC3CC4CC5CC6CC7CC8CC9CC%10CC%11CC1C2C3C4C5C6C7C8C9C%10C%11",
              "F/C=C/C=C\\C", "C/1=C/CCCC1", "[nH]1cccc1", "c1ccccc1-c2ccccc2", "C=1CCCCC=1", "C=1CCCCC1", "C1CCCCC=1", "C-1CCCCC=1", "C/1CCCCC\\1", "C/1CCCCC/1", "C(C(C(C)))C", "C1.C1", "C1(C)", "*", "[*]", "[*H]", "[HH1]", "Cl", "Br", "B", "Bx", "At", "Ts", "Tx", "A"] { v.push(s.to_string()) }
    // hubs: ring digits written after 15..40 and after 254..257 branches, closures onto and from the hub in both orientations
    for k in [15usize, 16, 17, 24, 25, 33, 40, 255, 256] {
        let br = "(C)".repeat(k);
        if k > 100 { for t in [format!("C{}1CC1", br), format!("CC{}1CC1", br), format!("C{}1(CC12)2", br)] { v.push(t) } continue }
        for t in [format!("C{}1CC1", br), format!("CC{}1CC1", br), format!("C1{}CC1", br), format!("C{}1(CC12)2", br), format!("C{}1(CC1)", br), format!("C{}12CC1C2", br),
                  format!("C1CC1{}", br), format!("C{}1CC1C2CC2", br), format!("C{}%99CC%99", br), format!("C{}=1CC1", br), format!("C{}1CC=1", br), format!("C{}1(C1)", br)] { v.push(t) } }
    // characters at the limits of the code space, and characters whose low byte / low 16 bits alias a SMILES character, in every kind of position
    for c in ['\u{ffff}', '\u{fffe}', '\u{0}', '\u{10ffff}', '\u{fffd}', '\u{80}', '\u{130}', '\u{131}', '\u{137}', '\u{125}', '\u{128}', '\u{143}', '\u{15b}', '\u{10031}', '\u{10043}', '\u{1f635}', '\u{ff11}', '\u{2167}'] {
        for t in [format!("C{}", c), format!("{}C", c), format!("C{}C", c), format!("C1CC1{}C", c), format!("C%1{}CCCCC%11", c), format!("C%{}7CC7", c), format!("C=%{}5CC=%55", c), format!("C{}CC1", c),
                  format!("[C{}]", c), format!("[CH{}]", c), format!("[C:{}]", c), format!("[{}C]", c), format!("[C+{}]", c), format!("[C@TB{}]", c), format!("C({}C)C", c), format!("C(C{})C", c)] { v.push(t) } }
    // a dot inside a branch after a long chain / after nested branches (the writer must still reach back over it); a number re-opened on the same atom
    for k in [3usize, 255, 256, 257, 300] { v.push(format!("{}(C.C)C", "C".repeat(k))); v.push(format!("{}(C(C.O)C)N", "C".repeat(k))) }
    for t in ["[CH\u{b2}?]", "C[NH\u{663}?]", "[C@@H\u{ff12}", "[CH\u{b2}", "[C+\u{b2}?]", "[13\u{663}C?]", "C%1\u{b2}?"] { v.push(t.to_string()) }
    for t in ["C(C.O)N", "CC(C.[Na+])O", "C(C1.C1)C", "C(C(.O)C)N", "C(.C.C.C.C)C", "C(C.C.C)C"] { v.push(t.to_string()) }
    for n in ["1", "7", "%12", "%07"] { for t in ["C{n}(CC{n}){n}CC{n}", "C{n}(C(C)C{n}){n}CCC{n}", "C{n}(CC{n})(C){n}CC{n}", "CC{n}(CC{n})C{n}CC{n}", "C{n}(CC{n})C{n}(CC{n}){n}CC{n}", "C={n}(CC={n})#{n}CC#{n}",
        "*={n}%12", "C/{n}%10CC\\{n}CC%10", "C={n}%10%11CC%11CC%10C={n}", "C{n}={n}"] { v.push(t.replace("{n}", n)) } }
    // many ring digits before an unmatched one; redundant percent spellings
    v.push(format!("{}C1", "C1CC1".repeat(90))); v.push(format!("{}C1C1", "C1CC1".repeat(90)));
    for t in ["C%05CC%05", "C1CC%01", "C(C=%07)CCC%07", "C%00CC%00", "C%09CC9", "C0CC%00", "C%10CC%10"] { v.push(t.to_string()) }
    while v.len() < n {
        // one string in eight is the written form of a ring-dense graph (many closures open at once, digits re-used)
        if rng.chance(1, 8) { let k = 4 + rng.below(6); let mut g: Vec<Atom> = (0..k).map(|_| Atom { kind: AtomKind::Aliphatic(purr_verif_harness::enums_gen::all_aliphatic().swap_remove(1)), bonds: vec![] }).collect();
            for i in 0..k { for j in i + 1..k { if rng.chance(3, 4) { let at = rng.below(g[i].bonds.len() + 1); g[i].bonds.insert(at, Bond::new(BondKind::Elided, j)); let at = rng.below(g[j].bonds.len() + 1); g[j].bonds.insert(at, Bond::new(BondKind::Elided, i)) } } }
            let mut w = Writer::new(); if let Ok(Ok(())) = guarded(|| walk(clone_graph(&g), &mut w)) { v.push(w.write()); continue } }
        let n = if rng.chance(1, 12) { 40 + rng.below(60) } else { rng.below(14) }; let h = if rng.chance(1, 2) { gen_history(rng, n) } else { gen_history_rings(rng, n) };
        let mut w = Writer::new(); replay(&h, &mut w); let text = w.write();
        match rng.below(10) {
            0..=4 => v.push(text),
            5..=7 => { // one mutation: delete / insert / substitute a character
                let mut cs: Vec<char> = text.chars().collect();
                if cs.is_empty() { v.push(text); continue }
                let i = rng.below(cs.len());
                match rng.below(3) { 0 => { cs.remove(i); } 1 => cs.insert(i, *rng.pick(alpha)), _ => cs[i] = *rng.pick(alpha) }
                v.push(cs.into_iter().collect())
            }
            8 => { if rng.chance(1, 3) { let c = *rng.pick(alpha); v.push(format!("{}{}", c, text)) } else { let cut = rng.below(text.chars().count() + 1); v.push(text.chars().take(cut).collect()) } }
            _ => { let len = rng.below(8); v.push((0..len).map(|_| *rng.pick(alpha)).collect()) }
        }
    }
    v
}
fn reader_case(s: &str) -> String {
    let mut rec = Recorder::new(); let mut trace = Trace::new();
    let r = guarded(|| read(s, &mut rec, Some(&mut trace)));
    let v = verdict(&r);
    let natoms = rec.events.iter().filter(|e| matches!(e, Ev::Root(_) | Ev::Extend(_, _))).count();
    let nrnums = rec.events.iter().filter(|e| matches!(e, Ev::Join(_, _))).count();
    let atoms: Vec<String> = (0..=natoms).map(|i| coq_opt_range(trace.atom(i))).collect();
    let rnums: Vec<String> = (0..=nrnums).map(|i| coq_opt_range(trace.rnum(i))).collect();
    let lim = natoms.min(9) + 1;
    let mut bonds = vec![];
    for i in 0..lim { for j in 0..lim { bonds.push(format!("({}, {}, {})%nat", i, j, match trace.bond(i, j) { Some(c) => format!("Some {}", c), None => "None".into() })) } }
    // the same input into the other followers: the verdict must not depend on the follower, and nothing may panic
    let mut b = Builder::new(); let mut t2 = Trace::new();
    let rb = guarded(|| read(s, &mut b, Some(&mut t2)));
    let mut w = Writer::new();
    let rw = guarded(|| read(s, &mut w, None));
    let mut b2 = Builder::new();
    let rb2 = guarded(|| read(s, &mut b2, None));
    let ok = v == "VOk";
    let (vb, vw, vb2) = (verdict(&rb), verdict(&rw), verdict(&rb2));
    let build = if ok && vb == "VOk" { coq_build(guarded(move || b.build())) } else { "B'Skip".into() };
    let text = if ok && vw == "VOk" { opt_text(guarded(move || w.write()).ok()) } else { "None".into() };
    format!("RC {} {} {} [{}] [{}] [{}] {} {} [{}; {}; {}]", coq_text(s), v, coq_evs(&rec.events), atoms.join("; "), rnums.join("; "), bonds.join("; "), build, text, vb, vw, vb2)
}

// ------------------------------------------------------------------ ref suite: the Rust reference against the Coq specification
fn ref_case(h: &[Ev], starts: Option<(&dyn Fn(usize) -> usize, &dyn Fn(usize) -> usize, Vec<String>, Vec<String>)>) -> String {
    use purr_verif_harness::reference::{denote, expected_bonds, RefErr};
    let d = match denote(h) { Ok(g) => format!("(FOk {})", coq_graph(&g)), Err(RefErr::Join(a, b)) => format!("(FJoin {} {})", a, b),
        Err(RefErr::Unmatched(v)) => format!("(FUnmatched [{}]%nat)", v.iter().map(|x| x.to_string()).collect::<Vec<_>>().join("; ")), Err(RefErr::Malformed) => "FMalformed".into() };
    let natoms = h.iter().filter(|e| matches!(e, Ev::Root(_) | Ev::Extend(_, _))).count();
    let (atoms, rnums, bonds) = match starts {
        Some((fa, fr, atoms, rnums)) => { let m = expected_bonds(h, fa, fr); let lim = natoms.min(9) + 1; let mut q = vec![];
            for i in 0..lim { for j in 0..lim { q.push(format!("({}, {}, {})%nat", i, j, match m.get(&(i, j)) { Some(c) => format!("Some {}", c), None => "None".into() })) } }
            (atoms, rnums, q) }
        None => (vec![], vec![], vec![]) };
    format!("FC {} [{}] [{}] {} [{}]", coq_evs(h), atoms.join("; "), rnums.join("; "), d, bonds.join("; "))
}
fn ref_case_of_string(s: &str) -> Option<String> {
    let mut rec = Recorder::new(); let mut trace = Trace::new();
    match guarded(|| read(s, &mut rec, Some(&mut trace))) { Ok(Ok(())) => (), _ => return None }
    let natoms = rec.events.iter().filter(|e| matches!(e, Ev::Root(_) | Ev::Extend(_, _))).count();
    let nrnums = rec.events.iter().filter(|e| matches!(e, Ev::Join(_, _))).count();
    let atoms: Vec<String> = (0..=natoms).map(|i| coq_opt_range(trace.atom(i))).collect();
    let rnums: Vec<String> = (0..=nrnums).map(|i| coq_opt_range(trace.rnum(i))).collect();
    let fa = |i: usize| trace.atom(i).map(|r| r.start).unwrap_or(0); let fr = |i: usize| trace.rnum(i).map(|r| r.start).unwrap_or(0);
    Some(ref_case(&rec.events, Some((&fa, &fr, atoms, rnums))))
}

// ------------------------------------------------------------------ walk suite
fn walk_case(g: &[Atom]) -> String {
    let mut rec = Recorder::new();
    let r = guarded(|| walk(clone_graph(g), &mut rec));
    let ok = matches!(r, Ok(Ok(())));
    // builder fed directly with the traversal's events; writer; and the round trip through text
    let (build, text, reread, text2) = if ok {
        let mut b = Builder::new(); let rb = guarded(|| { replay(&rec.events, &mut b); b.build() });
        let mut w = Writer::new(); let rw = guarded(|| { replay(&rec.events, &mut w); w.write() });
        let (reread, text2) = match &rw {
            Ok(t) => { let mut b2 = Builder::new(); let t = t.clone();
                let rr = guarded(|| read(&t, &mut b2, None).map_err(|e| format!("{:?}", e)));
                match rr { Ok(Ok(())) => { let g2 = guarded(move || b2.build());
                        let text2 = match &g2 { Ok(Ok(g2)) => { let mut w2 = Writer::new(); let g2c = clone_graph(g2); guarded(move || { walk(g2c, &mut w2).map(|_| w2.write()) }).ok().and_then(|r| r.ok()) } _ => None };
                        (coq_build(g2), text2) }
                    _ => ("B'Panic".into(), None) } }
            Err(_) => ("B'Skip".into(), None) };
        (coq_build(rb), opt_text(rw.ok()), reread, opt_text(text2))
    } else { ("B'Skip".into(), "None".into(), "B'Skip".into(), "None".into()) };
    format!("WC {} {} {} {} {} {} {}", coq_graph(g), wres(&r), coq_evs(&rec.events), build, text, reread, text2)
}

// ------------------------------------------------------------------ history suite (writer and builder driven directly)
fn hist_case(h: &[Ev]) -> String {
    let mut w = Writer::new(); let rw = guarded(|| { replay(h, &mut w); w.write() });
    let mut b = Builder::new(); let rb = guarded(|| { replay(h, &mut b); b.build() });
    // re-read what was written, and write that again
    let (reread, rewrite) = match &rw { Ok(t) => { let mut rec = Recorder::new(); let r = guarded(|| read(t, &mut rec, None));
            let mut w2 = Writer::new(); let evs = &rec.events; let rw2 = guarded(|| { replay(evs, &mut w2); w2.write() });
            (format!("(Some ({}, {}))", verdict(&r), coq_evs(&rec.events)), opt_text(rw2.ok())) } Err(_) => ("None".into(), "None".into()) };
    format!("HC {} {} {} {} {}", coq_evs(h), opt_text(rw.ok()), coq_build(rb), reread, rewrite)
}

// ------------------------------------------------------------------ pool suite
fn pool_case(hits: &[(usize, usize)]) -> String {
    let mut out = vec![];
    let hits_c: Vec<(usize, usize)> = hits.to_vec();
    let r = guarded(|| { let mut p = JoinPool::new(); let mut v = vec![]; for (a, b) in hits_c { v.push(p.hit(a, b)) } v });
    match r { Ok(v) => for x in v { out.push(format!("Some {}", coq_rnum(&x))) },
        Err(_) => { // replay until the panic to keep the prefix
            let mut p = JoinPool::new();
            for (a, b) in hits { let (a, b) = (*a, *b); let rr = std::panic::catch_unwind(std::panic::AssertUnwindSafe(|| p.hit(a, b))); match rr { Ok(x) => out.push(format!("Some {}", coq_rnum(&x))), Err(_) => { out.push("None".into()); break } } } } }
    let nat = |x: usize| if x > 2000 { format!("N.to_nat {}%N", x) } else { format!("{}%nat", x) };
    format!("PC [{}] [{}]", hits.iter().map(|(a, b)| format!("({}, {})", nat(*a), nat(*b))).collect::<Vec<_>>().join("; "), out.join("; "))
}

// ------------------------------------------------------------------ atom suite (valence) and kind suite (display, read_atom, invert, debracket)
fn atom_case(a: &Atom) -> String {
    let a1 = clone_atom(a); let a2 = clone_atom(a);
    let sv = guarded(move || a1.subvalence()); let sh = guarded(move || a2.suppressed_hydrogens());
    let f = |r: Result<u8, String>| match r { Ok(v) => format!("(Some {}%N)", v), Err(_) => "None".into() };
    format!("AC {} {} {} {} [{}]%N", coq_atom(a), f(sv), f(sh), a.is_aromatic(), a.kind.targets().iter().map(|t| t.to_string()).collect::<Vec<_>>().join("; "))
}
fn kind_case(k: &AtomKind, rng: &mut Rng, alpha: &[char]) -> String { kind_case_with(k, rng, alpha, false) }
fn kind_case_with(k: &AtomKind, rng: &mut Rng, alpha: &[char], exact: bool) -> String {
    let text = k.to_string();
    // read_atom on the text followed by a random tail, and on a random string
    let tail: String = (0..rng.below(3)).map(|_| *rng.pick(alpha)).collect();
    let probe = if exact { text.clone() } else if rng.chance(3, 4) { format!("{}{}", text, tail) } else { (0..rng.below(7)).map(|_| *rng.pick(alpha)).collect() };
    let mut sc = Scanner::new(&probe);
    let r = guarded(|| verif_read_atom(&mut sc));
    let ra = match r { Err(_) => "TPanic".to_string(), Ok(Ok(Some(k2))) => format!("(TOk {} {})", coq_kind(&k2), sc.cursor()), Ok(Ok(None)) => "TNo".into(),
        Ok(Err(RError::EndOfLine)) => "TErrEol".into(), Ok(Err(RError::Character(i))) => format!("(TErrChar {})", i) };
    let mut k2 = clone_kind(k);
    let inv = match guarded(|| k2.invert_configuration()) { Ok(()) => format!("(KOk {})", coq_kind(&k2)), Err(_) => "KPanic".into() };
    let sum = [0u8, 1, 2, 3, 4, 5, 6, 7, 250, 255][rng.below(10)];
    let k3 = clone_kind(k);
    let db = match guarded(move || k3.debracket(sum)) { Ok(r) => format!("(Some {})", coq_kind(&r)), Err(_) => "None".into() };
    format!("KC {} {} {} {} {} {}%N {} [{}]%N {}", coq_kind(k), coq_text(&text), coq_text(&probe), ra, inv, sum, db, k.targets().iter().map(|t| t.to_string()).collect::<Vec<_>>().join("; "), k.is_aromatic())
}

fn main() {
    std::panic::set_hook(Box::new(|_| {}));
    let args: Vec<String> = std::env::args().collect();
    let (suite, count, outdir, shards) = (args[1].as_str(), args[2].parse::<usize>().unwrap(), args[3].clone(), args[4].parse::<usize>().unwrap());
    let alpha: Vec<char> = std::env::var("VERIF_ALPHABET").unwrap_or("()*+-.0123456789:=@BCFHNOPS[]%clnos#/\\$".into()).chars().chain("\u{e9}~ \u{b2}\u{663}\u{ff12}\u{feff}\u{200b}\u{a0}\u{ffff}\u{0}\u{130}\u{131}\u{10031}\u{1f635}".chars()).collect();
    let mut rng = Rng::from_env(suite.bytes().fold(7u64, |a, b| a.wrapping_mul(131).wrapping_add(b as u64)));
    let mut cases: Vec<String> = vec![];
    let mut dist = std::collections::BTreeMap::<String, usize>::new();
    let mut bump = |k: &str| *dist.entry(k.to_string()).or_insert(0) += 1;
    match suite {
        "reader" => for s in gen_strings(&mut rng, count, &alpha) { let c = reader_case(&s); bump(if c.contains(" VOk ") { "accepted" } else if c.contains(" VEol ") { "eol" } else { "char" }); bump(&format!("len{}", (s.chars().count() / 8) * 8)); cases.push(c) },
        "reader_exh" => { // every string of length <= 4 over a 12-symbol sub-alphabet (thorough tier)
            let sub: Vec<char> = "Cc1().=[]%@H".chars().collect();
            let mut level: Vec<String> = vec![String::new()];
            cases.push(reader_case(""));
            for _ in 0..4 { let mut next = vec![]; for p in &level { for c in &sub { let mut q = p.clone(); q.push(*c); cases.push(reader_case(&q)); next.push(q) } } level = next; if cases.len() >= count { break } }
            bump("exhaustive") },
        "pool_exh" => { // every hit sequence of length <= 5 over four atom pairs in both orientations
            let opts: Vec<(usize, usize)> = vec![(0, 1), (1, 0), (0, 2), (2, 0), (1, 2), (2, 1), (3, 4), (4, 3)];
            let mut level: Vec<Vec<(usize, usize)>> = vec![vec![]];
            for _ in 0..5 { let mut next = vec![]; for p in &level { for o in &opts { let mut q = p.clone(); q.push(*o); cases.push(pool_case(&q)); next.push(q) } } level = next }
            bump("exhaustive") },
        "walk" => {
            // corpus: witnesses of past findings
            let star = |b: Vec<(BondKind, usize)>| Atom { kind: AtomKind::Star, bonds: b.into_iter().map(|(k, t)| Bond::new(k, t)).collect() };
            let e = || BondKind::Elided;
            let corpus: Vec<Vec<Atom>> = vec![vec![], vec![star(vec![])], vec![star(vec![(e(), 1), (e(), 2)]), star(vec![(e(), 0)]), star(vec![(e(), 0), (e(), 1)])],
                vec![star(vec![(e(), 0)])], vec![star(vec![(e(), 1), (e(), 1)]), star(vec![(e(), 0), (e(), 0)])], vec![star(vec![(BondKind::Up, 1)]), star(vec![(BondKind::Up, 0)])]];
            for g in corpus { cases.push(walk_case(&g)); bump("corpus") }
            // complete graphs, each written many times: output that depends on a hash seed shows up as a difference between copies and from the model
            for k in 4usize..=7 { let g: Vec<Atom> = (0..k).map(|i| star((0..k).filter(|j| *j != i).map(|j| (e(), j)).collect())).collect(); for _ in 0..40 { cases.push(walk_case(&g)) } bump("corpus-complete-graphs") }
            // one neighbour listed k times, with and without its counterpart
            for k in [2usize, 24, 25, 26, 63, 64, 65, 255, 256, 257, 300] {
                cases.push(walk_case(&[star((0..k).map(|_| (e(), 1)).collect()), star(vec![(e(), 0)])])); 
                cases.push(walk_case(&[star(vec![(e(), 1)]), star((0..k).map(|_| (e(), 0)).collect())]));
                cases.push(walk_case(&[star((0..k).map(|_| (e(), 1)).collect()), star((0..k).map(|_| (e(), 0)).collect())]));
                cases.push(walk_case(&[star((0..k).map(|_| (e(), 1)).collect()), star(vec![])])); bump("corpus-many-duplicates") }
            while cases.len() < count {
                let big = count > 5000;
                let g = match rng.below(18) { 15 => { bump("several ring-bearing components"); gen_components(&mut rng) }
                    16 => { bump("directed cycle of one-sided bonds"); gen_directed_cycle(&mut rng) }
                    17 => { let mut g = if rng.chance(1, 2) { gen_wf_graph(&mut rng, 8) } else { gen_components(&mut rng) }; let k = 2 + rng.below(3); for _ in 0..k { mutate_graph(&mut rng, &mut g); } bump("several defects at once"); g }
                    0..=4 => { bump("wf"); gen_wf_graph(&mut rng, 9) } 5 => { bump("wf-large"); gen_wf_graph(&mut rng, if big { 48 } else { 20 }) }
                    10 => { bump("ladder"); let k = if big && rng.chance(1, 8) { 20 + rng.below(85) } else { 2 + rng.below(14) }; gen_ladder(&mut rng, k) }
                    11 => { bump("hub"); let d = if rng.chance(1, 6) { 20 + rng.below(50) } else { 3 + rng.below(6) }; gen_hub(&mut rng, d) }
                    12 => { let k = 2 + rng.below(6); let mut g = gen_ladder(&mut rng, k); let m = mutate_graph(&mut rng, &mut g); bump(&format!("ladder-mutant-{}", m)); g }
                    14 => { // a duplicated (or re-kinded, or dropped) entry in the bond list of a hub of degree 17..70, also far from the arrival bond
                        let d = 17 + rng.below(54); let mut g = gen_hub(&mut rng, d); let hub = (0..g.len()).max_by_key(|i| g[*i].bonds.len()).unwrap();
                        let j = rng.below(g[hub].bonds.len()); let what = rng.below(4);
                        match what { 0 | 1 => { let b = Bond::new(if what == 0 { g[hub].bonds[j].kind.clone() } else { gen_bk(&mut rng) }, g[hub].bonds[j].tid); let at = rng.below(g[hub].bonds.len() + 1); g[hub].bonds.insert(at, b) }
                                     2 => { g[hub].bonds.remove(j); } _ => { let t = g[hub].bonds[j].tid; g[t].bonds.retain(|b| b.tid != hub) } }
                        bump("large-hub-mutant"); g }
                    13 => { let d = 3 + rng.below(5); let mut g = gen_hub(&mut rng, d); let m = mutate_graph(&mut rng, &mut g); bump(&format!("hub-mutant-{}", m)); g }
                    6..=8 => { let mut g = gen_wf_graph(&mut rng, 7); let m = mutate_graph(&mut rng, &mut g); bump(&format!("mutant-{}", m)); g }
                    _ => { bump("junk"); gen_junk_graph(&mut rng, 5) } };
                cases.push(walk_case(&g))
            } },
        "ref" => {
            // the reference round trip on well-formed graphs (tree, ring-dense, ladders, hubs)
            for i in 0..count / 3 { let g = match i % 4 { 0 => gen_ladder(&mut rng, 2 + i % 7), 1 => gen_hub(&mut rng, 3 + i % 9), _ => gen_wf_graph(&mut rng, 3 + i % 12) };
                cases.push(format!("GC {} {}", coq_graph(&g), coq_graph(&purr_verif_harness::reference::expected_roundtrip(&g)))); bump("round trip of a generated graph") }
            for s in gen_strings(&mut rng, count / 2, &alpha) { if let Some(c) = ref_case_of_string(&s) { bump("from accepted string"); cases.push(c) } }
            while cases.len() < count { let n = if rng.chance(1, 12) { 30 + rng.below(50) } else { 1 + rng.below(12) };
                let mut h = if rng.chance(1, 2) { gen_history(&mut rng, n) } else { gen_history_rings(&mut rng, n) };
                let joins: Vec<usize> = (0..h.len()).filter(|i| matches!(h[*i], Ev::Join(_, _))).collect();
                if !joins.is_empty() && rng.chance(1, 3) { let i = *rng.pick(&joins); if rng.chance(1, 2) { h.remove(i); bump("ring token dropped") } else { let e = match &h[i] { Ev::Join(b, r) => Ev::Join(b.clone(), r.clone()), _ => unreachable!() }; let at = i + rng.below(h.len() - i); h.insert(at + 1, e); bump("ring token repeated") } }
                bump("from generated history"); cases.push(ref_case(&h, None)) } },
        "hist" => while cases.len() < count {
            let n = if rng.chance(1, 12) { 30 + rng.below(50) } else { rng.below(12) }; let mut h = if rng.chance(1, 2) { gen_history(&mut rng, n) } else { gen_history_rings(&mut rng, n) };
            if rng.chance(1, 12) { let i = rng.below(h.len() + 1); h.insert(i, Ev::Pop(rng.below(4))); bump("nonconformant") } else { bump("conformant") }
            cases.push(hist_case(&h)) },
        "pool" => {
            for seq in [vec![(0, 1), (1, 0), (2, 3), (4, 5)], vec![(0, 1), (2, 3), (4, 5), (2, 3), (0, 1), (6, 7), (8, 9), (10, 11)]] { cases.push(pool_case(&seq)); }
            // a ladder: 110 closures open at once
            cases.push(pool_case(&(0..110).map(|i| (i, i + 1000)).collect::<Vec<_>>()));
            // many sequential rings
            cases.push(pool_case(&(0..300).flat_map(|i| vec![(i, i + 1), (i + 1, i)]).collect::<Vec<_>>()));
            // two different atom pairs open at the same time must never be taken for one: every pair of distinct unordered pairs over ids 0..48
            // (635 628 of them, both closing orders) is run on the implementation; offenders are forwarded to the Coq oracle below
            { let ids = 48usize; let mut pairs = vec![]; for a in 0..ids { for b in a + 1..ids { pairs.push((a, b)) } }
              let num = |r: &Rnum| rnum_number(r); let (mut swept, mut bad) = (0usize, 0usize);
              for i in 0..pairs.len() { for j in i + 1..pairs.len() { let (p, q) = (pairs[i], pairs[j]); swept += 1;
                  let ok = guarded(|| { let mut pool = JoinPool::new();
                      let v = [num(&pool.hit(p.0, p.1)), num(&pool.hit(q.1, q.0)), num(&pool.hit(p.1, p.0)), num(&pool.hit(q.0, q.1)), num(&pool.hit(q.0, q.1)), num(&pool.hit(p.0, p.1)), num(&pool.hit(q.1, q.0)), num(&pool.hit(p.1, p.0))];
                      v == [1, 2, 1, 2, 1, 2, 1, 2] }).unwrap_or(false);
                  if !ok { bad += 1; if bad <= 12 { cases.push(pool_case(&[p, (q.1, q.0), (p.1, p.0), q, q, p, (q.1, q.0), (p.1, p.0)])) } } } }
              dist.insert("pairs of atom pairs swept".into(), swept); dist.insert("pairs of atom pairs mixed up".into(), bad); }
            // atom ids beyond 16 and 32 bits: the pair key must not truncate or pack them
            cases.push(pool_case(&[(5, 1), (65541, 0), (1, 5), (0, 65541)]));
            cases.push(pool_case(&[(0, 65538), (2, 65536), (65538, 0), (65536, 2)]));
            cases.push(pool_case(&[(1, 2), (65537, 65538), (131073, 131074), (2, 1), (65538, 65537), (131074, 131073)]));
            // fill to 99 open, release one, reopen; then release all and reopen
            { let mut v: Vec<(usize, usize)> = (0..99).map(|i| (i, i + 500)).collect(); v.push((7, 507)); v.push((1000, 1001)); v.push((1000, 1001)); for i in 0..99 { if i != 7 { v.push((i + 500, i)) } } v.push((3, 4)); v.push((5, 6)); cases.push(pool_case(&v)); }
            while cases.len() < count {
                if rng.chance(1, 10) { // sparse huge ids
                    let big = [0usize, 1, 2, 5, 65535, 65536, 65537, 65541, 131072, 131073, 196608, 196613];
                    let len = rng.below(16); let seq: Vec<(usize, usize)> = (0..len).map(|_| { let a = *rng.pick(&big); let mut b = *rng.pick(&big); if a == b { b = a + 7 } (a, b) }).collect();
                    cases.push(pool_case(&seq)); continue }
                // unordered pairs over a small id range so that many distinct pairs (and both orientations) are open at once
                let ids = match rng.below(4) { 0 => 4, 1 => 8, 2 => 12, _ => 30 };
                let len = rng.below(40);
                let seq: Vec<(usize, usize)> = (0..len).map(|_| { let a = rng.below(ids); let mut b = rng.below(ids); if a == b { b = (b + 1) % ids } (a, b) }).collect();
                cases.push(pool_case(&seq)) } },
        "atom" => { { use purr_verif_harness::enums_gen::*;
            for deg in [61usize, 62, 63, 64, 65, 84, 85, 86, 127, 128, 129, 254, 255, 256, 257, 300] { for bk in [BondKind::Quadruple, BondKind::Triple, BondKind::Double] { for h in [0usize, 1, 4, 9] { for sym in [5usize, 15] {
                let kind = AtomKind::Bracket { isotope: None, symbol: BracketSymbol::Element(all_element().swap_remove(sym)), configuration: None, hcount: Some(all_virtual_hydrogen().swap_remove(h)), charge: None, map: None };
                cases.push(atom_case(&Atom { kind, bonds: (0..deg).map(|i| Bond::new(bk.clone(), i + 1)).collect() })); bump("directed high degree") } } }
                for kind in [AtomKind::Star, AtomKind::Aliphatic(all_aliphatic().swap_remove(1)), AtomKind::Aromatic(all_aromatic().swap_remove(1))] {
                    cases.push(atom_case(&Atom { kind, bonds: (0..deg).map(|i| Bond::new(BondKind::Quadruple, i + 1)).collect() })) } } }
            while cases.len() < count {
            let deg = match rng.below(10) { 0 => 250 + rng.below(60), 1 => rng.below(40), _ => rng.below(7) };
            let kind = if rng.chance(1, 2) { gen_kind(&mut rng) } else if rng.chance(1, 2) { AtomKind::Aliphatic(purr_verif_harness::enums_gen::all_aliphatic().swap_remove(rng.below(12))) } else { AtomKind::Aromatic(purr_verif_harness::enums_gen::all_aromatic().swap_remove(rng.below(6))) };
            let a = Atom { kind, bonds: (0..deg).map(|i| Bond::new(if deg > 40 { BondKind::Single } else { purr_verif_harness::enums_gen::all_bond_kind().swap_remove(rng.below(8)) }, i + 1)).collect() };
            bump(if deg > 200 { "degree>200" } else if deg > 6 { "degree7-40" } else { "degree<=6" });
            cases.push(atom_case(&a)) } },
        "kind" => { let (total, bad, sample) = kind_sweep();
            dist.insert("sweep_kinds_written_and_read_back".into(), total); dist.insert("sweep_offenders".into(), bad.len());
            for k in bad.iter().chain(sample.iter()) { cases.push(kind_case_with(k, &mut rng, &alpha, true)) }
            while cases.len() < count { let k = if rng.chance(2, 3) { gen_bracket(&mut rng) } else { gen_kind(&mut rng) }; cases.push(kind_case(&k, &mut rng, &alpha)) } },
        _ => panic!("unknown suite"),
    }
    // round-robin over the shards, so that a run of expensive corpus cases does not land in one file
    let nsh = shards.max(1).min(cases.len().max(1));
    let mut buckets: Vec<Vec<String>> = (0..nsh).map(|_| vec![]).collect();
    for (i, c) in cases.iter().enumerate() { buckets[i % nsh].push(c.clone()) }
    for (i, chunk) in buckets.iter().enumerate() {
        let mut f = String::new();
        writeln!(f, "(* GENERATED by corr {} (seed from VERIF_SEED): implementation outputs on generated inputs *)", suite).unwrap();
        writeln!(f, "From Coq Require Import List NArith String.\nImport ListNotations.\nRequire Import P.Generated.Enums P.Spec.Values P.Model.Base P.Model.Reader P.Model.Walk P.Model.Builder P.Model.Token P.Corr.CorrLib.\nLocal Open Scope string_scope.").unwrap();
        if suite == "ref" {
            let (gc, fc): (Vec<&String>, Vec<&String>) = chunk.iter().partition(|c| c.starts_with("GC "));
            writeln!(f, "Definition cases := [\n  {}\n].", fc.iter().map(|s| s.as_str()).collect::<Vec<_>>().join(";\n  ")).unwrap();
            writeln!(f, "Definition gcases := [\n  {}\n].", gc.iter().map(|s| s.as_str()).collect::<Vec<_>>().join(";\n  ")).unwrap();
            writeln!(f, "Eval vm_compute in List.app (run_ref_suite cases) (run_refg_suite gcases).").unwrap();
        } else {
        writeln!(f, "Definition cases := [\n  {}\n].", chunk.join(";\n  ")).unwrap();
        writeln!(f, "Eval vm_compute in run_{}_suite cases.", suite.trim_end_matches("_exh")).unwrap(); }
        std::fs::write(format!("{}/cases_{}_{}.v", outdir, suite, i), f).unwrap();
    }
    println!("{{\"suite\": \"{}\", \"cases\": {}, \"distribution\": {{{}}}, \"sample\": {:?}}}", suite, cases.len(), dist.iter().map(|(k, v)| format!("\"{}\": {}", k, v)).collect::<Vec<_>>().join(", "), cases.get(cases.len() / 2).map(|s| s.chars().take(300).collect::<String>()).unwrap_or_default());
}
