//! Learn the decision trie of every token production from the compiled code and print it as a Coq `tree`.
//! usage: learn_trees <alphabet>    (alphabet = character literals of src/read/*.rs, extracted by tools/alphabet.py)
//! Checks made here (exit 3 with a message on failure):
//!   * every explored node is also probed with characters outside the alphabet, which must behave like omega;
//!   * the learned tries are run against the real productions on random strings far outside the explored family.
use purr::read::verif::*;
use purr::read::Error;
use purr::feature::*;
use purr_verif_harness::{coq_symbol, Rng};
use std::collections::BTreeMap;

const OMEGA: char = '~';
// outside the alphabet: blanks, letters, non-ASCII numerals, noncharacters and limits of the code space, and characters whose low 8 or 16 bits
// alias a SMILES character ('0'..'9', '%', '(', '.', '=', '@', 'C', 'H', '[' seen through `as u8` / `as u16`)
const OUTSIDE: [char; 38] = [' ', 'Q', 'j', '\u{e9}', '\u{2028}', '\u{10FFFF}', '!', 'J', '\u{b2}', '\u{663}', '\u{bd}', '\u{ff12}', '\u{1d7d9}',
    '\u{0}', '\u{7f}', '\u{80}', '\u{ffff}', '\u{fffe}', '\u{fffd}', '\u{d7ff}', '\u{e000}', '\u{feff}',
    '\u{130}', '\u{131}', '\u{135}', '\u{139}', '\u{125}', '\u{128}', '\u{12e}', '\u{13d}', '\u{140}', '\u{143}', '\u{148}', '\u{15b}',
    '\u{10031}', '\u{10043}', '\u{1005b}', '\u{1f635}'];
#[derive(Clone, PartialEq, Eq, Debug)]
struct Obs { out: String, cursor: usize, eol: bool }   // out is already Coq syntax for `outcome`
type Prod = dyn Fn(&mut Scanner) -> Result<Option<String>, Error>;

fn observe(f: &Prod, p: &str) -> Obs {
    let mut sc = Scanner::new(p);
    let r = std::panic::catch_unwind(std::panic::AssertUnwindSafe(|| f(&mut sc)));
    match r {
        Err(_) => Obs { out: "(OPanic 0)".into(), cursor: 0, eol: false },
        Ok(Ok(Some(v))) => Obs { out: format!("(OVal {})", v), cursor: sc.cursor(), eol: false },
        Ok(Ok(None)) => Obs { out: "ONone".into(), cursor: sc.cursor(), eol: false },
        Ok(Err(Error::EndOfLine)) => Obs { out: "OErrEol".into(), cursor: sc.cursor(), eol: true },
        Ok(Err(Error::Character(i))) => Obs { out: format!("(OErrChar {})", i), cursor: sc.cursor(), eol: false },
    }
}
enum Node { Leaf(Obs), Inner { eof: Obs, kids: BTreeMap<char, Node> } }

fn explore(f: &Prod, alpha: &[char], p: String, depth: usize, runs: &mut usize, bad: &mut Vec<String>) -> Node {
    let o = observe(f, &p); *runs += 1;
    let mut same = !o.eol;
    let mut firsts = vec![];
    let mut on_omega = None;
    for &c in alpha.iter().chain(std::iter::once(&OMEGA)) {
        let mut q = p.clone(); q.push(c);
        let oc = observe(f, &q); *runs += 1;
        if !(oc.out == o.out && oc.cursor == o.cursor) { same = false; }
        if c == OMEGA { on_omega = Some(oc); }
        firsts.push(q);
    }
    // characters outside the alphabet must be indistinguishable from omega
    for &x in OUTSIDE.iter() {
        if alpha.contains(&x) { continue; }
        let mut q = p.clone(); q.push(x);
        let ox = observe(f, &q); *runs += 1;
        if Some(&ox) != on_omega.as_ref() { bad.push(format!("after {:?}: {:?} gives {:?} but omega gives {:?}", p, x, ox, on_omega)); }
    }
    if same { return Node::Leaf(o); }
    if depth > 9 { bad.push(format!("exploration deeper than 9 below {:?}", p)); return Node::Leaf(o); }
    let mut kids = BTreeMap::new();
    for q in firsts { let c = q.chars().last().unwrap(); kids.insert(c, explore(f, alpha, q, depth + 1, runs, bad)); }
    Node::Inner { eof: o, kids }
}
fn leaf(o: &Obs, pos: usize) -> String { let mut s = format!("(Leaf {})", o.out); for _ in pos..o.cursor { s = format!("(Pop {})", s); } s }
// render: `pos` = number of characters consumed so far on this path (= depth of the inner node)
fn render(n: &Node, pos: usize) -> String {
    match n {
        Node::Leaf(o) => leaf(o, pos),
        Node::Inner { eof, kids } => {
            let child = |c: &char| -> String { let k = &kids[c]; match k { Node::Leaf(o) => leaf(o, pos), Node::Inner { .. } => format!("(Pop {})", render(k, pos + 1)) } };
            let dflt = child(&OMEGA);
            let mut t = dflt.clone();
            for (c, _) in kids.iter().rev() { if *c == OMEGA { continue; } let r = child(c); if r != dflt { t = format!("(Test (PLit {}%N) {} {})", *c as u32, r, t); } }
            format!("(IfEof (Leaf {}) {})", eof.out, t)
        }
    }
}
// the learned trie as a function on strings (what the Coq `run` computes): outcome and cursor
fn predict(n: &Node, s: &[char], alpha: &[char]) -> (String, usize) {
    let mut n = n; let mut i = 0;
    loop {
        match n {
            Node::Leaf(o) => return (o.out.clone(), o.cursor),
            Node::Inner { eof, kids } => {
                if i >= s.len() { return (eof.out.clone(), eof.cursor); }
                let c = if alpha.contains(&s[i]) { s[i] } else { OMEGA };
                n = &kids[&c]; i += 1;
            }
        }
    }
}
fn stats(n: &Node) -> (usize, usize) { match n { Node::Leaf(_) => (0, 1), Node::Inner { kids, .. } => { let mut a = (1, 0); for k in kids.values() { let s = stats(k); a.0 += s.0; a.1 += s.1; } a } } }
fn org(k: &AtomKind) -> String { match k { AtomKind::Aliphatic(a) => format!("(Org_Aliphatic Al_{:?})", a), AtomKind::Aromatic(a) => format!("(Org_Aromatic Ar_{:?})", a), _ => "Org_Other".into() } }

fn main() {
    std::panic::set_hook(Box::new(|_| {}));
    let alpha: Vec<char> = std::env::args().nth(1).expect("alphabet").chars().collect();
    let nverify: usize = std::env::args().nth(2).and_then(|s| s.parse().ok()).unwrap_or(20000);
    if alpha.contains(&OMEGA) { eprintln!("omega is in the alphabet"); std::process::exit(3); }
    println!("(* GENERATED by learn-trees: decision tries of the token productions, learned from the compiled code *)");
    println!("From Coq Require Import List NArith.\nImport ListNotations.\nRequire Import P.Generated.Enums P.Meta.Scan P.Spec.Values.\n");
    println!("Definition alphabet : list char := [{}]%N.\nDefinition omega : char := {}%N.\n", alpha.iter().map(|c| (*c as u32).to_string()).collect::<Vec<_>>().join("; "), OMEGA as u32);
    let prods: Vec<(&str, &str, Box<Prod>)> = vec![
        ("symbol", "bracket_symbol", Box::new(|s| read_symbol(s).map(|v| Some(coq_symbol(&v))))),
        ("organic", "organic", Box::new(|s| read_organic(s).map(|o| o.map(|k| org(&k))))),
        ("configuration", "configuration", Box::new(|s| read_configuration(s).map(|o| o.map(|c| format!("Cf_{:?}", c))))),
        ("charge", "charge", Box::new(|s| read_charge(s).map(|o| o.map(|c| format!("Ch_{:?}", c))))),
        ("bond", "bond_kind", Box::new(|s| Ok(Some(format!("BK_{:?}", read_bond(s)))))),
        ("rnum", "rnum", Box::new(|s| read_rnum(s).map(|o| o.map(|c| format!("Rn_{:?}", c))))),
        ("hcount", "virtual_hydrogen", Box::new(|s| verif_read_hcount(s).map(|o| o.map(|c| format!("VH_{:?}", c))))),
        ("isotope", "N", Box::new(|s| verif_read_isotope(s).map(|o| o.map(|n| format!("{}%N", u16::from(&n)))))),
        ("map", "N", Box::new(|s| verif_read_map(s).map(|o| o.map(|n| format!("{}%N", u16::from(&n)))))),
    ];
    let mut bad = vec![];
    let mut rng = Rng::from_env(0x7e57);
    let pool: Vec<char> = alpha.iter().cloned().chain(OUTSIDE.iter().cloned()).chain(std::iter::once(OMEGA)).collect();
    for (name, ty, f) in prods.iter() {
        let mut runs = 0;
        let n = explore(f.as_ref(), &alpha, String::new(), 0, &mut runs, &mut bad);
        let (inner, leaves) = stats(&n);
        // correspondence of the learned trie with the production on random strings
        let mut mism = 0;
        for _ in 0..nverify {
            let len = rng.below(9);
            let s: Vec<char> = (0..len).map(|_| *rng.pick(&pool)).collect();
            let st: String = s.iter().collect();
            let o = observe(f.as_ref(), &st);
            let (po, pc) = predict(&n, &s, &alpha);
            // EndOfLine on a prefix is Character(len) once more input follows: the trie records this per node, so outcomes must match exactly
            if o.out != po || o.cursor != pc { mism += 1; if mism <= 3 { bad.push(format!("{}: on {:?} the code gives {:?} but the learned trie gives ({}, {})", name, st, o, po, pc)); } }
        }
        eprintln!("{:14} internal={} leaves={} runs={} verify={} mismatches={}", name, inner, leaves, runs, nverify, mism);
        println!("(* {}: {} internal nodes, {} leaves, {} scanner runs *)\nDefinition tree_{} : tree {} :=\n  {}.\n", name, inner, leaves, runs, name, ty, render(&n, 0));
    }
    if !bad.is_empty() { for b in bad.iter().take(20) { eprintln!("LEARNER-ASSUMPTION-VIOLATED: {}", b); } std::process::exit(3); }
}
