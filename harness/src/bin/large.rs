//! Large regular molecules through the whole pipeline, judged by the Rust reference denotation (harness lib, tied to the
//! Coq specification by the `ref` suite) and by the text fixed point.  One (family, n) per process: a stack overflow or
//! abort is seen by the caller as a signal.   usage: large <family> <n>
use purr::graph::{Atom, Builder, Error as BError};
use purr::read::{read, Trace};
use purr::walk::walk;
use purr::write::Writer;
use purr_verif_harness::reference::{denote, expected_bonds, expected_roundtrip, RefErr};
use purr_verif_harness::*;

fn agree(built: &Result<Vec<Atom>, BError>, r: &Result<Vec<Atom>, RefErr>) -> Result<(), String> {
    match (built, r) {
        (Ok(g), Ok(g2)) => { if g.len() != g2.len() { return Err(format!("{} atoms built, {} expected", g.len(), g2.len())) }
            for (i, (a, b)) in g.iter().zip(g2.iter()).enumerate() { if a != b { return Err(format!("atom {}: built {:?} expected {:?}", i, a, b).chars().take(400).collect()) } } Ok(()) }
        (Err(BError::Join(a, b)), Err(RefErr::Join(x, y))) if a == x && b == y => Ok(()),
        (Err(BError::Rnum(i)), Err(RefErr::Unmatched(v))) if v.contains(i) => Ok(()),
        (b, r) => Err(format!("built {:?} expected {:?}", b.as_ref().map(|g| g.len()), r.as_ref().map(|g| g.len())).chars().take(400).collect()),
    }
}
fn fail(name: &str, n: usize, stage: &str, detail: &str) -> String {
    format!("{{\"family\": \"{}\", \"n\": {}, \"ok\": false, \"stage\": \"{}\", \"detail\": {:?}}}", name, n, stage, detail)
}
fn run(name: String, n: usize) -> String {
    let text = family(&name, n);
    let canonical = matches!(name.as_str(), "chain" | "chain_bonds" | "branches_c" | "tail_branch" | "long_branch" | "dots" | "comb" | "brackets");
    // 1. events and trace
    let mut rec = Recorder::new(); let mut trace = Trace::new();
    match guarded(|| read(&text, &mut rec, Some(&mut trace))) { Ok(Ok(())) => (), other => return fail(&name, n, "read", &format!("{:?}", other)) }
    let h = rec.events;
    // 1b. the reader feeding the string writer directly: no panic, and a text in normal form is echoed character for character
    let mut we = Writer::new();
    match guarded(|| read(&text, &mut we, None).map(|_| we.write())) { Ok(Ok(t)) => { if t != text { return fail(&name, n, "written text of the reader's events differs from the input in normal form", &format!("len {} vs {}", t.len(), text.len())) } }
        other => return fail(&name, n, "writer panics or the read fails when the reader feeds the writer", &format!("{:?}", other.map(|r| r.map(|t| t.len())))) }
    // 2. builder (no trace) against the reference denotation of the events
    let mut b = Builder::new();
    match guarded(|| read(&text, &mut b, None)) { Ok(Ok(())) => (), other => return fail(&name, n, "read without trace", &format!("{:?}", other)) }
    let built = match guarded(move || b.build()) { Ok(r) => r, Err(m) => return fail(&name, n, "build panics", &m) };
    let expected = denote(&h);
    if let Err(m) = agree(&built, &expected) { return fail(&name, n, "built graph is not the denotation", &m) }
    // 3. trace: every atom range slices to its token; every bond of the graph maps to the cursor of its own end
    let chars: Vec<char> = text.chars().collect();
    let kinds: Vec<String> = h.iter().filter_map(|e| match e { Ev::Root(k) | Ev::Extend(_, k) => Some(k.to_string()), _ => None }).collect();
    for (i, k) in kinds.iter().enumerate() {
        match trace.atom(i) { Some(r) if r.end <= chars.len() && chars[r.start..r.end].iter().collect::<String>() == *k => (),
            other => return fail(&name, n, "trace atom range", &format!("atom {} ({}) -> {:?}", i, k, other)) } }
    if trace.atom(kinds.len()).is_some() { return fail(&name, n, "trace atom range", "an id past the last atom maps to a range") }
    let fa = |i: usize| trace.atom(i).map(|r| r.start).unwrap_or(0); let fr = |i: usize| trace.rnum(i).map(|r| r.start).unwrap_or(0);
    let eb = expected_bonds(&h, &fa, &fr);
    if let Ok(g) = &expected {
        for (i, a) in g.iter().enumerate() { for bd in &a.bonds {
            let got = trace.bond(i, bd.tid);
            if got != eb.get(&(i, bd.tid)).copied() { return fail(&name, n, "trace bond cursor", &format!("bond({}, {}) -> {:?}, expected {:?}", i, bd.tid, got, eb.get(&(i, bd.tid)))) } } }
        let last = g.len() - 1;
        if g.len() > 3 && !g[0].bonds.iter().any(|x| x.tid == last / 2) && last / 2 != 0 && trace.bond(0, last / 2).is_some() { return fail(&name, n, "trace bond cursor", "unbonded pair maps to a cursor") }
    }
    // 4. walk: events, rebuild from the events against the reference, text, fixed point
    let atoms = match built { Ok(g) => g, Err(_) => return format!("{{\"family\": \"{}\", \"n\": {}, \"ok\": true, \"atoms\": 0, \"outcome\": \"build error as expected\"}}", name, n) };
    let natoms = atoms.len();
    let round = expected_roundtrip(&atoms);
    let mut rec2 = Recorder::new();
    match guarded(move || walk(atoms, &mut rec2).map(|_| rec2)) { Ok(Ok(r2)) => {
        let h2 = r2.events;
        let mut b2 = Builder::new();
        let built2 = match guarded(|| { replay(&h2, &mut b2); b2.build() }) { Ok(r) => r, Err(m) => return fail(&name, n, "builder panics on the traversal's events", &m) };
        if let Err(m) = agree(&built2, &denote(&h2)) { return fail(&name, n, "graph rebuilt from the traversal is not the denotation of its events", &m) }
        if let Err(m) = agree(&built2, &Ok(round)) { return fail(&name, n, "graph rebuilt from the traversal is not the expected round trip (depth-first renumbering, arrival bond first)", &m) }
        let mut w = Writer::new();
        let out = match guarded(|| { replay(&h2, &mut w); w.write() }) { Ok(t) => t, Err(m) => return fail(&name, n, "writer panics on the traversal's events", &m) };
        if canonical && out != text { return fail(&name, n, "written text differs from the canonical input", &format!("len {} vs {}", out.len(), text.len())) }
        let mut b3 = Builder::new();
        match guarded(|| read(&out, &mut b3, None)) { Ok(Ok(())) => (), other => return fail(&name, n, "written text is refused", &format!("{:?}", other)) }
        let g3 = match guarded(move || b3.build()) { Ok(Ok(g3)) if g3.len() == natoms => g3, other => return fail(&name, n, "written text rebuilds", &format!("{:?}", other.map(|r| r.map(|g| g.len())))) };
        if let Ok(g2) = &built2 { if *g2 != g3 { return fail(&name, n, "graph read from the written text differs from the graph rebuilt from the events", "") } }
        let mut w3 = Writer::new();
        match guarded(move || walk(g3, &mut w3).map(|_| w3.write())) { Ok(Ok(t3)) if t3 == out => (), _ => return fail(&name, n, "written text is not a fixed point", "") }
        format!("{{\"family\": \"{}\", \"n\": {}, \"ok\": true, \"atoms\": {}, \"events\": {}, \"text_len\": {}}}", name, n, natoms, h.len(), text.len())
    }
    // more than 99 ring closures open at once: the known finding F15 (C06), not judged here
    Err(m) if m.contains("rnum") => format!("{{\"family\": \"{}\", \"n\": {}, \"ok\": true, \"atoms\": {}, \"outcome\": \"walk stops at 100 open closures (known finding F15)\"}}", name, n, natoms),
    other => fail(&name, n, "walk", &format!("{:?}", other.map(|r| r.map(|_| ())))) }
}
fn main() {
    std::panic::set_hook(Box::new(|_| {}));
    let a: Vec<String> = std::env::args().collect();
    let (name, n) = (a[1].clone(), a[2].parse::<usize>().unwrap());
    let h = std::thread::Builder::new().stack_size(8 * 1024 * 1024).spawn(move || run(name, n)).unwrap();
    println!("{}", h.join().unwrap());
}
