//! Shared pieces of the verification harness: enum listings (generated), Coq renderers,
//! a seeded PRNG and a recording follower.
pub mod enums_gen;
pub mod gen;
use purr::feature::*;
use purr::graph::{Atom, Bond};
use purr::walk::Follower;

pub fn cstr(s: &str) -> String { format!("\"{}\"", s.replace('"', "\"\"")) }
pub fn opt<T>(o: &Option<T>, f: impl Fn(&T) -> String) -> String { match o { Some(v) => format!("(Some {})", f(v)), None => "None".into() } }
pub fn coq_symbol(s: &BracketSymbol) -> String {
    match s { BracketSymbol::Star => "BS_Star".into(), BracketSymbol::Element(e) => format!("(BS_Element El_{:?})", e), BracketSymbol::Aromatic(a) => format!("(BS_Aromatic BA_{:?})", a) }
}
pub fn coq_kind(k: &AtomKind) -> String {
    match k {
        AtomKind::Star => "AK_Star".into(),
        AtomKind::Aliphatic(a) => format!("(AK_Aliphatic Al_{:?})", a),
        AtomKind::Aromatic(a) => format!("(AK_Aromatic Ar_{:?})", a),
        AtomKind::Bracket { isotope, symbol, configuration, hcount, charge, map } => format!("(AK_Bracket {} {} {} {} {} {})",
            opt(isotope, |n| format!("{}%N", u16::from(n))), coq_symbol(symbol), opt(configuration, |c| format!("Cf_{:?}", c)),
            opt(hcount, |h| format!("VH_{:?}", h)), opt(charge, |c| format!("Ch_{:?}", c)), opt(map, |n| format!("{}%N", u16::from(n)))),
    }
}
pub fn coq_bk(k: &BondKind) -> String { format!("BK_{:?}", k) }
pub fn coq_rnum(r: &Rnum) -> String { format!("{}%N", gen::rnum_number(r)) }
pub fn coq_atom(a: &Atom) -> String {
    format!("(mkA {} [{}])", coq_kind(&a.kind), a.bonds.iter().map(|b| format!("({}, {}%nat)", coq_bk(&b.kind), b.tid)).collect::<Vec<_>>().join("; "))
}
pub fn coq_graph(g: &[Atom]) -> String { format!("[{}]", g.iter().map(coq_atom).collect::<Vec<_>>().join("; ")) }

/// Events as the followers see them.
#[derive(Debug, PartialEq)]
pub enum Ev { Root(AtomKind), Extend(BondKind, AtomKind), Join(BondKind, Rnum), Pop(usize) }
pub fn coq_ev(e: &Ev) -> String {
    match e {
        Ev::Root(k) => format!("ERoot {}", coq_kind(k)), Ev::Extend(b, k) => format!("EExtend {} {}", coq_bk(b), coq_kind(k)),
        Ev::Join(b, r) => format!("EJoin {} {}", coq_bk(b), coq_rnum(r)), Ev::Pop(n) => format!("EPop {}%nat", n),
    }
}
pub fn coq_evs(h: &[Ev]) -> String { format!("[{}]", h.iter().map(coq_ev).collect::<Vec<_>>().join("; ")) }
#[derive(Default)]
pub struct Recorder { pub events: Vec<Ev>, pub addrs: Vec<usize> }
impl Recorder { pub fn new() -> Self { Self::default() } fn mark(&mut self) { let x = 0u8; self.addrs.push(&x as *const u8 as usize) } }
impl Follower for Recorder {
    fn root(&mut self, k: AtomKind) { self.mark(); self.events.push(Ev::Root(k)) }
    fn extend(&mut self, b: BondKind, k: AtomKind) { self.mark(); self.events.push(Ev::Extend(b, k)) }
    fn join(&mut self, b: BondKind, r: Rnum) { self.mark(); self.events.push(Ev::Join(b, r)) }
    fn pop(&mut self, d: usize) { self.mark(); self.events.push(Ev::Pop(d)) }
}
/// Feed a recorded history to any follower (values are rebuilt because AtomKind is not Clone).
pub fn clone_kind(k: &AtomKind) -> AtomKind {
    use std::convert::TryFrom;
    match k {
        AtomKind::Star => AtomKind::Star,
        AtomKind::Aliphatic(a) => AtomKind::Aliphatic(enums_gen::all_aliphatic().into_iter().find(|x| x == a).unwrap()),
        AtomKind::Aromatic(a) => AtomKind::Aromatic(enums_gen::all_aromatic().into_iter().find(|x| x == a).unwrap()),
        AtomKind::Bracket { isotope, symbol, configuration, hcount, charge, map } => AtomKind::Bracket {
            isotope: isotope.as_ref().map(|n| Number::try_from(u16::from(n)).unwrap()),
            symbol: match symbol { BracketSymbol::Star => BracketSymbol::Star,
                BracketSymbol::Element(e) => BracketSymbol::Element(enums_gen::all_element().into_iter().find(|x| x == e).unwrap()),
                BracketSymbol::Aromatic(a) => BracketSymbol::Aromatic(enums_gen::all_bracket_aromatic().into_iter().find(|x| x == a).unwrap()) },
            configuration: configuration.as_ref().map(|c| enums_gen::all_configuration().into_iter().find(|x| x == c).unwrap()),
            hcount: hcount.as_ref().map(|c| enums_gen::all_virtual_hydrogen().into_iter().find(|x| x == c).unwrap()),
            charge: charge.as_ref().map(|c| enums_gen::all_charge().into_iter().find(|x| x == c).unwrap()),
            map: map.as_ref().map(|n| Number::try_from(u16::from(n)).unwrap()),
        },
    }
}
pub fn clone_atom(a: &Atom) -> Atom { Atom { kind: clone_kind(&a.kind), bonds: a.bonds.iter().map(|b| Bond::new(b.kind.clone(), b.tid)).collect() } }
pub fn clone_graph(g: &[Atom]) -> Vec<Atom> { g.iter().map(clone_atom).collect() }
pub fn replay<F: Follower>(h: &[Ev], f: &mut F) {
    for e in h { match e { Ev::Root(k) => f.root(clone_kind(k)), Ev::Extend(b, k) => f.extend(b.clone(), clone_kind(k)), Ev::Join(b, r) => f.join(b.clone(), r.clone()), Ev::Pop(d) => f.pop(*d) } }
}

/// xorshift64*: every random choice of every generator derives from VERIF_SEED.
pub struct Rng(pub u64);
impl Rng {
    pub fn from_env(salt: u64) -> Self { let s: u64 = std::env::var("VERIF_SEED").ok().and_then(|s| s.parse().ok()).unwrap_or(1); Rng((s.wrapping_mul(0x9E3779B97F4A7C15) ^ salt.wrapping_mul(0xD1B54A32D192ED03)) | 1) }
    pub fn next(&mut self) -> u64 { let mut x = self.0; x ^= x >> 12; x ^= x << 25; x ^= x >> 27; self.0 = x; x.wrapping_mul(0x2545F4914F6CDD1D) }
    pub fn below(&mut self, n: usize) -> usize { if n == 0 { 0 } else { (self.next() >> 11) as usize % n } }
    pub fn chance(&mut self, num: usize, den: usize) -> bool { self.below(den) < num }
    pub fn pick<'a, T>(&mut self, v: &'a [T]) -> &'a T { &v[self.below(v.len())] }
    pub fn shuffle<T>(&mut self, v: &mut Vec<T>) { for i in (1..v.len()).rev() { let j = self.below(i + 1); v.swap(i, j) } }
}
/// Run `f`, mapping a panic to Err(message location).
pub fn guarded<T>(f: impl FnOnce() -> T) -> Result<T, String> {
    std::panic::catch_unwind(std::panic::AssertUnwindSafe(f)).map_err(|e| {
        if let Some(s) = e.downcast_ref::<&str>() { s.to_string() } else if let Some(s) = e.downcast_ref::<String>() { s.clone() } else { "panic".into() }
    })
}

pub fn coq_text(s: &str) -> String { format!("[{}]%N", s.chars().map(|c| (c as u32).to_string()).collect::<Vec<_>>().join("; ")) }
pub fn coq_opt_range(o: Option<std::ops::Range<usize>>) -> String { match o { Some(r) => format!("Some ({}, {})%nat", r.start, r.end), None => "None".into() } }

// ------------------------------------------------------------------ reference denotation (Rust port of coq/Spec/Denote.v)
// Used only at sizes the Coq evaluation does not reach.  It is tied to the Coq specification on every run by the `ref`
// suite: on small generated cases its answers are compared, inside Coq, with `denote_events` and `expected_bonds`.
pub mod reference {
    use super::{clone_kind, Ev};
    use purr::feature::{AtomKind, BondKind, Configuration, VirtualHydrogen};
    use purr::graph::{Atom, Bond};
    use std::collections::{HashMap, HashSet};
    #[derive(Debug, PartialEq)]
    pub enum RefErr { Join(usize, usize), Unmatched(Vec<usize>), Malformed }
    enum Slot { Prev(BondKind, usize), Next(BondKind, usize), Ring(BondKind, usize) }
    fn adj(k: &AtomKind) -> AtomKind {
        match clone_kind(k) {
            AtomKind::Bracket { isotope, symbol, configuration, hcount: Some(h), charge, map } if h != VirtualHydrogen::H0 => AtomKind::Bracket { isotope, symbol,
                configuration: match configuration { Some(Configuration::TH1) => Some(Configuration::TH2), Some(Configuration::TH2) => Some(Configuration::TH1), c => c },
                hcount: Some(h), charge, map },
            other => other }
    }
    fn dirn(k: &BondKind) -> bool { k.reverse() != *k }
    fn resolve(b0: &BondKind, b: &BondKind) -> Option<(BondKind, BondKind)> {
        if b0 == b { if dirn(b) { None } else { Some((b0.clone(), b.clone())) } }
        else if *b0 == BondKind::Elided { Some((b.reverse(), b.clone())) }
        else if *b == BondKind::Elided { Some((b0.clone(), b0.reverse())) }
        else if dirn(b0) && *b == b0.reverse() { Some((b0.clone(), b.clone())) }
        else { None }
    }
    pub fn denote(h: &[Ev]) -> Result<Vec<Atom>, RefErr> {
        // pass 1: number the atom tokens, list each atom's slots in written order, list the ring tokens
        let mut atoms: Vec<(AtomKind, Vec<Slot>)> = vec![];
        let mut stack: Vec<usize> = vec![];
        let mut rings: Vec<(usize, usize, String, BondKind)> = vec![];
        let mut tree: HashSet<(usize, usize)> = HashSet::new();
        for e in h {
            match e {
                Ev::Root(k) => { stack.push(atoms.len()); atoms.push((clone_kind(k), vec![])) }
                Ev::Extend(b, k) => { let cur = *stack.last().ok_or(RefErr::Malformed)?; let id = atoms.len();
                    atoms[cur].1.push(Slot::Next(b.clone(), id)); atoms.push((adj(k), vec![Slot::Prev(b.clone(), cur)])); tree.insert((cur.min(id), cur.max(id))); stack.push(id) }
                Ev::Join(b, r) => { let cur = *stack.last().ok_or(RefErr::Malformed)?; let occ = rings.len();
                    atoms[cur].1.push(Slot::Ring(b.clone(), occ)); rings.push((occ, cur, format!("{:?}", r), b.clone())) }
                Ev::Pop(d) => { if *d >= stack.len() { return Err(RefErr::Malformed) } let n = stack.len() - d; stack.truncate(n) }
            }
        }
        if atoms.is_empty() { return Err(RefErr::Malformed) }
        // pass 2: a token closes the open token of the same number; classify what cannot be joined
        let mut opens: HashMap<String, (usize, usize, BondKind)> = HashMap::new();
        let mut bonded = tree;
        let mut res: HashMap<usize, (usize, BondKind)> = HashMap::new();
        let mut first_bad: Option<(usize, usize)> = None;
        for (occ, a, r, b) in rings {
            match opens.remove(&r) {
                Some((occ0, a0, b0)) => {
                    let key = (a.min(a0), a.max(a0));
                    if a == a0 || bonded.contains(&key) { if first_bad.is_none() { first_bad = Some((a, a0)) } }
                    else { match resolve(&b0, &b) { Some((l, rt)) => { bonded.insert(key); res.insert(occ0, (a, l)); res.insert(occ, (a0, rt)); }
                                                    None => if first_bad.is_none() { first_bad = Some((a, a0)) } } }
                }
                None => { opens.insert(r, (occ, a, b)); }
            }
        }
        if let Some((a, b)) = first_bad { return Err(RefErr::Join(a, b)) }
        if !opens.is_empty() { let mut v: Vec<usize> = opens.values().map(|o| o.0).collect(); v.sort_unstable_by(|x, y| y.cmp(x)); return Err(RefErr::Unmatched(v)) }
        Ok(atoms.into_iter().map(|(kind, slots)| Atom { kind, bonds: slots.into_iter().map(|s| match s {
            Slot::Prev(b, a) => Bond::new(b.reverse(), a), Slot::Next(b, a) => Bond::new(b, a),
            Slot::Ring(b, occ) => match res.get(&occ) { Some((p, k)) => Bond::new(k.clone(), *p), None => Bond::new(b, 0) } }).collect() }).collect())
    }
    /// what writing a well-formed adjacency list and reading it back must give (port of coq/Spec/Roundtrip.v, iterative)
    pub fn expected_roundtrip(g: &[Atom]) -> Vec<Atom> {
        let n = g.len();
        let mut rank = vec![usize::MAX; n]; let mut order: Vec<(usize, Option<usize>)> = vec![];
        for r in 0..n {
            if rank[r] != usize::MAX { continue }
            rank[r] = order.len(); order.push((r, None));
            let mut stack: Vec<(usize, usize)> = vec![(r, 0)];
            while let Some((x, i)) = stack.pop() {
                if i < g[x].bonds.len() {
                    stack.push((x, i + 1));
                    let t = g[x].bonds[i].tid;
                    if t < n && rank[t] == usize::MAX { rank[t] = order.len(); order.push((t, Some(x))); stack.push((t, 0)) }
                }
            }
        }
        let flip = |k: &AtomKind| match clone_kind(k) { AtomKind::Bracket { isotope, symbol, configuration, hcount, charge, map } => AtomKind::Bracket { isotope, symbol,
            configuration: match configuration { Some(Configuration::TH1) => Some(Configuration::TH2), Some(Configuration::TH2) => Some(Configuration::TH1), c => c }, hcount, charge, map }, k => k };
        order.iter().map(|(x, p)| { let a = &g[*x];
            let ren = |b: &Bond| Bond::new(b.kind.clone(), if b.tid < n { rank[b.tid] } else { 0 });
            match p {
                None => Atom { kind: clone_kind(&a.kind), bonds: a.bonds.iter().map(ren).collect() },
                Some(p) => { let idx = a.bonds.iter().position(|b| b.tid == *p).unwrap_or(0);
                    let mut bonds: Vec<Bond> = vec![]; if let Some(b) = a.bonds.get(idx) { bonds.push(ren(b)) }
                    for (j, b) in a.bonds.iter().enumerate() { if j != idx { bonds.push(ren(b)) } }
                    Atom { kind: if idx % 2 == 1 { flip(&a.kind) } else { clone_kind(&a.kind) }, bonds } } } }).collect()
    }
    /// the bond-cursor map recomputed from the ranges of the atom and ring tokens (port of CorrLib.expected_bonds)
    pub fn expected_bonds(h: &[Ev], atom_start: &dyn Fn(usize) -> usize, rnum_start: &dyn Fn(usize) -> usize) -> HashMap<(usize, usize), usize> {
        let mut m = HashMap::new(); let mut stack: Vec<usize> = vec![]; let (mut na, mut nr) = (0usize, 0usize);
        let mut open: HashMap<String, (usize, usize)> = HashMap::new();
        for e in h {
            match e {
                Ev::Root(_) => { stack.push(na); na += 1 }
                Ev::Extend(b, _) => { let sid = match stack.last() { Some(s) => *s, None => return m };
                    let c = atom_start(na).saturating_sub(if *b != BondKind::Elided { 1 } else { 0 });
                    m.insert((sid, na), c); m.insert((na, sid), c); stack.push(na); na += 1 }
                Ev::Join(b, r) => { let sid = match stack.last() { Some(s) => *s, None => return m };
                    let c = rnum_start(nr).saturating_sub(if *b != BondKind::Elided { 1 } else { 0 }); nr += 1;
                    match open.remove(&format!("{:?}", r)) { Some((osid, oc)) => { m.insert((sid, osid), c); m.insert((osid, sid), oc); } None => { open.insert(format!("{:?}", r), (sid, c)); } } }
                Ev::Pop(d) => { let n = stack.len().saturating_sub(*d); stack.truncate(n) }
            }
        }
        m
    }
}

/// unbounded regular input families (shared by the stack and the large-molecule runners); n is roughly the number of atoms
pub fn family(name: &str, n: usize) -> String {
    match name {
        "chain" => "C".repeat(n),
        "chain_bonds" => { let mut s = String::from("C"); for _ in 1..n { s.push_str("=C") } s }
        "dots" => { let mut s = String::from("C"); for _ in 1..n { s.push_str(".C") } s }
        "dot_rings" => { let mut s = String::from("C1CC1"); for _ in 1..n / 3 { s.push_str(".C1CC1") } s }
        "branches" => { let mut s = String::from("C"); for _ in 1..n { s.push_str("(C)") } s }
        "comb" => { let mut s = String::from("C"); for _ in 0..n / 4 { s.push_str("C(C)C") } s }
        "comb_stereo" => { let mut s = String::from("C"); for _ in 0..n / 3 { s.push_str("[C@H](O)C") } s }
        "deep" => { let d = n; let mut s = String::from("C"); for _ in 0..d { s.push_str("(C") } for _ in 0..d { s.push(')') } s }
        "brackets" => "[13CH2]".repeat(n),
        "nested8" => { let unit = "C(C(C(C(C(C(C(C(C))))))))"; unit.repeat(n / 9) }
        "dots_in_branch" => format!("C({})C", ".C".repeat(n)),
        "chain_dot_branch" => format!("{}(C.C)C", "C".repeat(n.max(2) - 1)),
        "dot_branches" => format!("*{}C(=O)N", "(.O)".repeat(n)),
        "macrocycle" => format!("C1{}1", "C".repeat(n.max(3) - 1)),
        "macro2" => format!("CC2CCCC2{}C1CCCCC1", "C".repeat(n.max(15) - 14)),
        "branches_c" => format!("C{}C", "(C)".repeat(n.max(3) - 2)),
        "tail_branch" => format!("{}(C)C", "C".repeat(n.max(3) - 2)),
        "long_branch" => format!("C({})C", "C".repeat(n.max(3) - 2)),
        "hub_then_ring" => format!("C{}1CC1", "(C)".repeat(n.max(4) - 3)),
        "hub_ring_first" => format!("C1{}CC1", "(C)".repeat(n.max(4) - 3)),
        "spiro" => "C1CC1".repeat((n / 3).max(1)),
        // n ring tokens before the offending one
        "rings_then_unmatched" => format!("{}C1", "C1CC1".repeat((n / 2).max(1))),
        "rings_then_duplicate" => format!("{}C1C1", "C1CC1".repeat((n / 2).max(1))),
        "ladder" => { let k = 99usize; let lab = |i: usize| if i < 10 { format!("{}", i) } else { format!("%{}", i) }; let mut s = String::new();
            for round in 0..(n / (2 * k)).max(1) { let _ = round; for i in 1..=k { s.push('C'); s.push_str(&lab(i)) } for i in 1..=k { s.push('C'); s.push_str(&lab(i)) } } s }
        "stereo_chain" => { let mut s = String::from("N"); for _ in 0..(n / 4).max(1) { s.push_str("[C@@H](C)C(=O)") } s.push('O'); s }
        _ => panic!("unknown family"),
    }
}
