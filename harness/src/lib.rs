//! Shared pieces of the verification harness: enum listings (generated), Coq renderers,
//! a seeded PRNG and a recording follower.
pub mod enums_gen;
pub mod gen;
use purr::feature::*;
use purr::graph::{Atom, Bond};
use purr::walk::Follower;

pub fn cstr(s: &str) -> String { format!("\"{}\"", s.replace('"', "\"\"")) }
pub fn opt<T>(o: &Option<T>, f: impl Fn(&T) -> String) -> String { match o { Some(v) => format!("(Some {})", f(v)), None => "None".into() } }
pub fn coq_symbol(s: &BracketSymbol) -> String {
    match s { BracketSymbol::Star => "BS_Star".into(), BracketSymbol::Element(e) => format!("(BS_Element El_{:?})", e), BracketSymbol::Aromatic(a) => format!("(BS_Aromatic BA_{:?})", a) }
}
pub fn coq_kind(k: &AtomKind) -> String {
    match k {
        AtomKind::Star => "AK_Star".into(),
        AtomKind::Aliphatic(a) => format!("(AK_Aliphatic Al_{:?})", a),
        AtomKind::Aromatic(a) => format!("(AK_Aromatic Ar_{:?})", a),
        AtomKind::Bracket { isotope, symbol, configuration, hcount, charge, map } => format!("(AK_Bracket {} {} {} {} {} {})",
            opt(isotope, |n| format!("{}%N", u16::from(n))), coq_symbol(symbol), opt(configuration, |c| format!("Cf_{:?}", c)),
            opt(hcount, |h| format!("VH_{:?}", h)), opt(charge, |c| format!("Ch_{:?}", c)), opt(map, |n| format!("{}%N", u16::from(n)))),
    }
}
pub fn coq_bk(k: &BondKind) -> String { format!("BK_{:?}", k) }
pub fn coq_rnum(r: &Rnum) -> String { format!("{}%N", gen::rnum_number(r)) }
pub fn coq_atom(a: &Atom) -> String {
    format!("(mkA {} [{}])", coq_kind(&a.kind), a.bonds.iter().map(|b| format!("({}, {}%nat)", coq_bk(&b.kind), b.tid)).collect::<Vec<_>>().join("; "))
}
pub fn coq_graph(g: &[Atom]) -> String { format!("[{}]", g.iter().map(coq_atom).collect::<Vec<_>>().join("; ")) }

/// Events as the followers see them.
#[derive(Debug, PartialEq)]
pub enum Ev { Root(AtomKind), Extend(BondKind, AtomKind), Join(BondKind, Rnum), Pop(usize) }
pub fn coq_ev(e: &Ev) -> String {
    match e {
        Ev::Root(k) => format!("ERoot {}", coq_kind(k)), Ev::Extend(b, k) => format!("EExtend {} {}", coq_bk(b), coq_kind(k)),
        Ev::Join(b, r) => format!("EJoin {} {}", coq_bk(b), coq_rnum(r)), Ev::Pop(n) => format!("EPop {}%nat", n),
    }
}
pub fn coq_evs(h: &[Ev]) -> String { format!("[{}]", h.iter().map(coq_ev).collect::<Vec<_>>().join("; ")) }
#[derive(Default)]
pub struct Recorder { pub events: Vec<Ev>, pub addrs: Vec<usize> }
impl Recorder { pub fn new() -> Self { Self::default() } fn mark(&mut self) { let x = 0u8; self.addrs.push(&x as *const u8 as usize) } }
impl Follower for Recorder {
    fn root(&mut self, k: AtomKind) { self.mark(); self.events.push(Ev::Root(k)) }
    fn extend(&mut self, b: BondKind, k: AtomKind) { self.mark(); self.events.push(Ev::Extend(b, k)) }
    fn join(&mut self, b: BondKind, r: Rnum) { self.mark(); self.events.push(Ev::Join(b, r)) }
    fn pop(&mut self, d: usize) { self.mark(); self.events.push(Ev::Pop(d)) }
}
/// Feed a recorded history to any follower (values are rebuilt because AtomKind is not Clone).
pub fn clone_kind(k: &AtomKind) -> AtomKind {
    use std::convert::TryFrom;
    match k {
        AtomKind::Star => AtomKind::Star,
        AtomKind::Aliphatic(a) => AtomKind::Aliphatic(enums_gen::all_aliphatic().into_iter().find(|x| x == a).unwrap()),
        AtomKind::Aromatic(a) => AtomKind::Aromatic(enums_gen::all_aromatic().into_iter().find(|x| x == a).unwrap()),
        AtomKind::Bracket { isotope, symbol, configuration, hcount, charge, map } => AtomKind::Bracket {
            isotope: isotope.as_ref().map(|n| Number::try_from(u16::from(n)).unwrap()),
            symbol: match symbol { BracketSymbol::Star => BracketSymbol::Star,
                BracketSymbol::Element(e) => BracketSymbol::Element(enums_gen::all_element().into_iter().find(|x| x == e).unwrap()),
                BracketSymbol::Aromatic(a) => BracketSymbol::Aromatic(enums_gen::all_bracket_aromatic().into_iter().find(|x| x == a).unwrap()) },
            configuration: configuration.as_ref().map(|c| enums_gen::all_configuration().into_iter().find(|x| x == c).unwrap()),
            hcount: hcount.as_ref().map(|c| enums_gen::all_virtual_hydrogen().into_iter().find(|x| x == c).unwrap()),
            charge: charge.as_ref().map(|c| enums_gen::all_charge().into_iter().find(|x| x == c).unwrap()),
            map: map.as_ref().map(|n| Number::try_from(u16::from(n)).unwrap()),
        },
    }
}
pub fn clone_atom(a: &Atom) -> Atom { Atom { kind: clone_kind(&a.kind), bonds: a.bonds.iter().map(|b| Bond::new(b.kind.clone(), b.tid)).collect() } }
pub fn clone_graph(g: &[Atom]) -> Vec<Atom> { g.iter().map(clone_atom).collect() }
pub fn replay<F: Follower>(h: &[Ev], f: &mut F) {
    for e in h { match e { Ev::Root(k) => f.root(clone_kind(k)), Ev::Extend(b, k) => f.extend(b.clone(), clone_kind(k)), Ev::Join(b, r) => f.join(b.clone(), r.clone()), Ev::Pop(d) => f.pop(*d) } }
}

/// xorshift64*: every random choice of every generator derives from VERIF_SEED.
pub struct Rng(pub u64);
impl Rng {
    pub fn from_env(salt: u64) -> Self { let s: u64 = std::env::var("VERIF_SEED").ok().and_then(|s| s.parse().ok()).unwrap_or(1); Rng((s.wrapping_mul(0x9E3779B97F4A7C15) ^ salt.wrapping_mul(0xD1B54A32D192ED03)) | 1) }
    pub fn next(&mut self) -> u64 { let mut x = self.0; x ^= x >> 12; x ^= x << 25; x ^= x >> 27; self.0 = x; x.wrapping_mul(0x2545F4914F6CDD1D) }
    pub fn below(&mut self, n: usize) -> usize { if n == 0 { 0 } else { (self.next() >> 11) as usize % n } }
    pub fn chance(&mut self, num: usize, den: usize) -> bool { self.below(den) < num }
    pub fn pick<'a, T>(&mut self, v: &'a [T]) -> &'a T { &v[self.below(v.len())] }
    pub fn shuffle<T>(&mut self, v: &mut Vec<T>) { for i in (1..v.len()).rev() { let j = self.below(i + 1); v.swap(i, j) } }
}
/// Run `f`, mapping a panic to Err(message location).
pub fn guarded<T>(f: impl FnOnce() -> T) -> Result<T, String> {
    std::panic::catch_unwind(std::panic::AssertUnwindSafe(f)).map_err(|e| {
        if let Some(s) = e.downcast_ref::<&str>() { s.to_string() } else if let Some(s) = e.downcast_ref::<String>() { s.clone() } else { "panic".into() }
    })
}

pub fn coq_text(s: &str) -> String { format!("[{}]%N", s.chars().map(|c| (c as u32).to_string()).collect::<Vec<_>>().join("; ")) }
pub fn coq_opt_range(o: Option<std::ops::Range<usize>>) -> String { match o { Some(r) => format!("Some ({}, {})%nat", r.start, r.end), None => "None".into() } }
